/* the Targa reader is only part of cjpeg: compile it into the executor */
#define TARGA_SUPPORTED
#include "rdtarga.c"
