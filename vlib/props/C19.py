"""C19 - generated Huffman tables are valid complete prefix codes; derived
tables are mutual inverses; nbits = floor(log2)+1."""
ID = "C19"
VARIANTS = ["san", "simd"]
RULE = ("gencs: codesize[] after the merge loop, read from the real function through the LJT_VERIF hook, against the model's array "
        "(and, on the real array, the pseudo-symbol on the deepest level); ops: nbits (all 65536 in thorough, boundary+random in quick), genopt histograms "
        "(random, Fibonacci-like, equal counts, single symbol, near 1e9), cderive/dderive/hrt on "
        "random valid prefix-code tables, the 4 standard tables and mutated invalid tables; "
        "distinct = distinct op line, class = op name + outcome (ok / error code)")
TRUSTED = ["Model.Huff is a hand transcription of jchuff.c/jdhuff.c table code; tied by cderive/dderive/genopt/hrt ops"]
ASSUMPTIONS = ["valoffset[] entries for unused code lengths are uninitialised in C and compared as 0"]


def classify(op, R):
    name = op.split(" ", 1)[0]
    out = R.split(" ")
    return name + ":" + (out[0] if out[0] != "err" else "err" + out[1]) if name != "nbits" else "nbits"


def rand_tree_bits(rng, nsym, maxlen=16):
    """random prefix code with nsym codes and one reserved code point at the deepest level"""
    leaves = [1, 1]
    while len(leaves) < nsym + 1:
        cand = [i for i, d in enumerate(leaves) if d < maxlen]
        if not cand:
            break
        i = rng.choice(cand)
        d = leaves.pop(i)
        leaves += [d + 1, d + 1]
    leaves.sort()
    leaves.pop()  # reserve the all-ones code point
    bits = [0] * 17
    for d in leaves:
        bits[d] += 1
    return bits


def tbl_str(bits, vals):
    return " ".join(map(str, bits[1:17])) + " %d " % len(vals) + " ".join(map(str, vals))


STD = None


def std_tables():
    import os, re
    from .. import common as C
    txt = open(os.path.join(C.LEAN, "LJT", "Gen", "Tables.lean")).read()
    out = {}
    for name in ("stdDcLum", "stdDcChrom", "stdAcLum", "stdAcChrom"):
        b = re.search(r"def %sBits : List Nat := \[([^\]]*)\]" % name, txt).group(1)
        v = re.search(r"def %sVals : List Nat := \[([^\]]*)\]" % name, txt).group(1)
        out[name] = ([int(x) for x in b.split(",")], [int(x) for x in v.split(",")])
    return out


def gen_ops(rng, tier):
    ops = []
    big = tier == "thorough"
    # ---- nbits
    xs = set([0, 1, 2, 3, 4, 255, 256, 32767, 32768, 65535])
    for k in range(16):
        xs |= {(1 << k) - 1, 1 << k, (1 << k) + 1}
    xs = {x for x in xs if 0 <= x < 65536}
    if big:
        xs = set(range(65536))
    else:
        xs |= {rng.randrange(65536) for _ in range(300)}
    ops += ["nbits %d" % x for x in sorted(xs)]
    # ---- genopt
    def hist(pairs):
        return "genopt " + " ".join("%d %d" % p for p in pairs)
    n = 1500 if big else 260
    for i in range(n):
        kind = rng.choice(["rand", "rand", "rand", "fib", "equal", "single", "huge", "geom", "twolevel"])
        k = rng.choice([1, 2, 3, 5, 12, 17, 40, 100, 162, 200, 226, 240, 254, 256]) if rng.random() < .5 else rng.randint(1, 256)
        syms = rng.sample(range(256), k)
        if kind == "rand":
            mag = rng.choice([2, 10, 1000, 10 ** 6])
            pairs = [(s, rng.randint(1, mag)) for s in syms]
        elif kind == "fib":
            k = min(k, rng.choice([20, 30, 33, 34, 36, 40]))
            syms = syms[:k] if len(syms) >= k else rng.sample(range(256), k)
            a, b, pairs = 1, 1, []
            for s in syms:
                pairs.append((s, a)); a, b = b, a + b
                if a > 3 * 10 ** 8: a, b = 1, 1
        elif kind == "equal":
            c = rng.choice([1, 7, 1000])
            pairs = [(s, c) for s in syms]
        elif kind == "single":
            pairs = [(syms[0], rng.randint(1, 10 ** 8))]
        elif kind == "huge":
            tot = 999999000
            pairs = [(s, max(1, tot // k - rng.randint(0, 5))) for s in syms]
        elif kind == "geom":
            r = rng.choice([2, 3]); pairs = []; v = 1
            for s in syms[:rng.randint(2, 28)]:
                pairs.append((s, v)); v = min(v * r, 10 ** 7)
        else:
            pairs = [(s, 1 if rng.random() < .9 else 5000) for s in syms]
        rng.shuffle(pairs)
        # the brief of the C function: total count below 1e9
        tot = sum(c for _, c in pairs)
        if tot >= 10 ** 9:
            pairs = [(s, max(1, c * (10 ** 9 - 300) // tot)) for s, c in pairs]
        ops.append(hist(pairs))
    # chains: counts 1, 2, 3, 5, 8, ... (each count at least the sum of the two before it) make the Huffman tree a single chain whose
    # depth is the number of symbols - every depth up to the 32 that the limiting step can take (table must be valid), and 33..40 where
    # the function has to leave through JERR_HUFF_CLEN_OVERFLOW (the total stays below 10^9)
    for k in list(range(14, 41)):
        a, b = rng.choice([(1, 2), (2, 3), (1, 3), (1, 2)])
        pairs = []
        syms = rng.sample(range(256), k)
        for s_ in syms:
            pairs.append((s_, a)); a, b = b, a + b
        rng.shuffle(pairs)
        if sum(c for _, c in pairs) < 10 ** 9:
            ops.append(hist(pairs))
    # tie-break sensitive: many equal small counts with a few larger
    for k in (2, 3, 4, 5, 8, 16, 32, 64, 128, 200, 254, 256):
        ops.append(hist([(s, 1) for s in range(k)]))
    ops.append(hist([(s, 1) for s in range(255)]))          # D4 (see known_findings.json)
    # the intermediate array codesize[] of the real merge loop (LJT_VERIF hook) against the model's, for every histogram above
    ops += ["gencs" + o[len("genopt"):] for o in list(ops) if o.startswith("genopt ")]
    # ---- derived tables
    std = std_tables()
    tables = []
    for name, (b, v) in std.items():
        tables.append((1 if "Dc" in name else 0, 0, b, v))
    for i in range(400 if big else 60):
        isdc = rng.random() < .4
        ll = isdc and rng.random() < .5
        maxsym = (16 if ll else 15) if isdc else 255
        ns = rng.randint(1, maxsym + 1)
        bits = rand_tree_bits(rng, ns)
        nsym = sum(bits[1:])
        vals = rng.sample(range(maxsym + 1), nsym)
        tables.append((int(isdc), int(ll), bits, vals))
    # the largest alphabets: 254, 255 and exactly 256 symbols (the bound of huffval[])
    for ns in (254, 255, 256, 256, 256):
        bits = rand_tree_bits(rng, ns)
        tables.append((0, 0, bits, rng.sample(range(256), sum(bits[1:]))))
    b89 = [0] * 17; b89[8] = 255; b89[9] = 1
    tables.append((0, 0, b89, list(range(256))))
    for (dc, ll, b, v) in tables:
        ops.append("cderive %d %d %s" % (dc, ll, tbl_str(b, v)))
        ops.append("dderive %d %d %s" % (dc, ll, tbl_str(b, v)))
        ops.append("hrt %d %d %s" % (dc, ll, tbl_str(b, v)))
    # invalid / hostile tables
    for i in range(300 if big else 60):
        dc = rng.randint(0, 1); ll = rng.randint(0, 1)
        kind = rng.choice(["over", "kraft", "dup", "range", "allones", "randbits"])
        bits = rand_tree_bits(rng, rng.randint(1, 40))
        nsym = sum(bits[1:])
        vals = rng.sample(range(256), nsym)
        if kind == "over":
            bits = [0] + [rng.randint(0, 255) for _ in range(16)]
        elif kind == "kraft":
            l = rng.randint(1, 16); bits[l] += rng.randint(1, 3)
        elif kind == "dup" and nsym > 1:
            vals[rng.randrange(nsym)] = vals[rng.randrange(nsym)]
        elif kind == "range":
            if vals: vals[rng.randrange(len(vals))] = rng.choice([15, 16, 17, 255])
        elif kind == "allones":
            # complete code: the reserved code point is used
            lmax = max(l for l in range(1, 17) if bits[l])
            bits[lmax] += 1
        else:
            bits = [0] + [rng.choice([0, 0, 0, 1, 2, 3]) for _ in range(16)]
        nsym = sum(bits[1:])
        pool = list(range(256)); rng.shuffle(pool)
        vals = (vals + pool)[:min(nsym, 256)]
        for o in ("cderive", "dderive", "hrt"):
            ops.append("%s %d %d %s" % (o, dc, ll, tbl_str(bits, vals)))
    return ops


def search(ctx, failing_ops):
    """Search for an input on which the real code fails the property's own oracle:
    re-run the oracle-carrying ops (genopt, hrt, nbits) of the disagreeing region
    plus a fresh biased stream."""
    from .. import common as C
    import random
    rng = random.Random("search/%s" % ctx["seed"])
    ops = [o for o in failing_ops if o.split(" ")[0] in ("genopt", "hrt", "nbits")]
    # a table that fails cderive/dderive correspondence is retried as hrt
    for o in failing_ops:
        p = o.split(" ")
        if p[0] in ("cderive", "dderive"):
            ops.append("hrt " + " ".join(p[1:]))
    ops += ["nbits %d" % x for x in range(0, 65536, 1)] if any(o.startswith("nbits") for o in failing_ops) or not failing_ops else []
    ops += [o for o in gen_ops(rng, "quick") if o.split(" ")[0] in ("genopt", "hrt")]
    found = []
    for v, exe in ctx["exes"].items():
        res, _ = C.run_exec(exe, ops)
        for op, (R, O) in zip(ops, res):
            if O and O.startswith("fail"):
                found.append((v, op, R, O))
    return found

MANIFEST = {
    "text": ("Kernel-checked Lean theorems, every clause of the property: (1) jpeg_gen_optimal_table (Annex K.2 as coded, modelled as the "
             "forest of trees the freq/codesize/others arrays encode): for EVERY histogram of up to 256 symbols with total count below "
             "10^9 the function either takes the JERR_HUFF_CLEN_OVERFLOW exit or returns bits[] whose counts of lengths 1..16 add up to "
             "the number of non-zero symbols, with bits[0] = 0, no count above 255 (UINT8 copy-out exact), Kraft sum = 1 minus exactly "
             "one code point of the longest length (so no code is all ones), accepted by the code-space check of both derived-table "
             "builders; and huffval[] a permutation of exactly the non-zero symbols ordered by Huffman code length - which needs the "
             "lemma that the pseudo-symbol ends on the deepest level (proved with a tie-break-aware invariant over creation keys).  "
             "(2) encoder- and decoder-side derived tables of any accepted table are mutual inverses, prefix-free, no code all ones.  "
             "(3) all 65536 entries of both copies of jpeg_nbits_table (regenerated from the tree each run) equal floor(log2 x)+1, the "
             "clz form likewise for all 32-bit x.  The generator and the derived-table builders are tied to the C functions by exact "
             "output comparison on seeded histograms/tables (tie-break-sensitive, Fibonacci-like up to depth 32 and beyond, equal "
             "counts, 256 symbols, counts near 10^9) and by every optimised / progressive / lossless file of C02 and C04."),
    "design_ref": "DESIGN.md I.6 C19, 6.19",
    "note": ("Trusted: Lean kernel; axioms propext, Quot.sound, Classical.choice; Gen translator; the hand model of jchuff.c/jdhuff.c "
             "(tied by correspondence, not verified line by line).  Histograms that force a Huffman depth above 32 (Fibonacci-like counts "
             "adding up to more than about 10^7) end in the error exit, outside the depths the property names."),
    "technique": "Lean 4 proof (forest invariants by induction over the merge loop, Kraft-sum invariant of the limiting loop, counting-sort placement; decide +kernel over regenerated tables) + model/code correspondence",
}
