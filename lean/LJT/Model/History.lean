/-! The state an API instance carries from one call to the next (src/turbojpeg.c `tjinstance`,
the libjpeg objects inside it): the parameter settings, which are meant to persist, and the
working state of the codec - `global_state`, the image-lifetime memory pool, the saved-marker
cursor of the marker reader - which every entry point must leave (or put back) clean:
`bailout: if (global_state > START) jpeg_abort(...)` after success and after an error
`longjmp`, `reset_marker_reader` at the start of every datastream. -/
namespace LJT.History

structure St where
  params : List Int
  gstate : Nat          -- 0 = CSTATE_START / DSTATE_START
  imageBytes : Nat      -- bytes in JPOOL_IMAGE
  midMarker : Bool      -- marker reader was interrupted inside a saved marker
deriving Repr, DecidableEq

def fresh (ps : List Int) : St := ⟨ps, 0, 0, false⟩

inductive Op
  | set (i : Nat) (v : Int)
  /-- an operation that runs `stage` steps into the codec's state machine, allocates
  `alloc` bytes of image-lifetime memory, and either completes or fails there - possibly in
  the middle of a saved marker -/
  | call (stage alloc : Nat) (failed midMarker : Bool)
deriving Repr

/-- what the body of an entry point does to the working state before its epilogue runs -/
def body (s : St) (stage alloc : Nat) (failed midMarker : Bool) : St :=
  { s with gstate := s.gstate + stage, imageBytes := s.imageBytes + alloc, midMarker := failed && midMarker }

/-- the epilogue every entry point runs, on success and after `longjmp`: `jpeg_abort` -/
def epilogue (s : St) : St := { s with gstate := 0, imageBytes := 0 }

/-- the prologue of the next datastream: `reset_marker_reader` -/
def prologue (s : St) : St := { s with midMarker := false }

def step (s : St) : Op → St
  | .set i v => { s with params := s.params.set i v }
  | .call stage alloc failed mid => epilogue (body (prologue s) stage alloc failed mid)

def run (s : St) (ops : List Op) : St := ops.foldl step s

/-- what a probe call can depend on: the state as its prologue leaves it -/
def seenByProbe (s : St) : St := prologue s

end LJT.History
