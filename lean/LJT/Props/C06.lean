import LJT.Proofs.Transform
/-!
# C06 - Lossless transforms move DCT blocks exactly and obey group laws

Full statement: a lossless transform (flip, transpose, transverse, rot 90/180/270, crop at
iMCU boundaries, gray, with or without trim, any entropy option, tj3Transform or jpegtran)
yields the source's quantisation tables (transposed where the operation transposes) and
exactly the source blocks, relocated and sign/transposition-adjusted; blocks outside a
cropped or trimmed region are absent and edge blocks that cannot be moved stay in place;
on whole-iMCU images composed transforms obey the geometric group laws; a request flagged
perfect fails instead of producing an imperfect result.

`Model.Transform.moveBlock` is the closed form of all block movers (it is compared with the
real `tj3Transform` output block by block - dimensions, sampling factors, table and block
hashes - on every generated case).  Proved here about that closed form: the block algebra,
the inverse law for all eight operations, the composition laws, the meaning of `perfect`,
what trimming removes, and table transposition.
-/
namespace LJT.C06
open LJT.Xform

/-- **Every destination block is one source block, adjusted by the operation's block op**
(the closed form, pinned as a theorem): inside the area made of whole iMCUs the source
position is the mirrored (and, for transposing operations, exchanged) position; outside it
the block stays where it is and is at most transposed. -/
theorem blocks_exact (op : Op) (src : Nat → Nat → Block) (cw ch xb yb y x : Nat) :
    moveBlock op src cw ch xb yb y x =
      (let mx := op.mirX && decide (x + xb < cw)
       let my := op.mirY && decide (y + yb < ch)
       let X' := if mx then cw - 1 - (x + xb) else x + xb
       let Y' := if my then ch - 1 - (y + yb) else y + yb
       blockOp op.swaps mx my (if op.swaps then src X' Y' else src Y' X')) := rfl

/-- **Inverse law for all eight operations** on images made of whole iMCUs: the operation
followed by its inverse (rot90/rot270 are each other's, all others are involutions)
restores every source block. -/
theorem inverse_law (op : Op) (g : Grid) (hblk : ∀ y x, IsBlock (g.at_ y x)) (y x : Nat)
    (hy : y < g.hb) (hx : x < g.wb) :
    (applyFull op.inverse (applyFull op g)).at_ y x = g.at_ y x :=
  inverse_restores op g hblk y x hy hx

/-- dimensions come back too -/
theorem inverse_law_dims (op : Op) (g : Grid) :
    (applyFull op.inverse (applyFull op g)).hb = g.hb ∧ (applyFull op.inverse (applyFull op g)).wb = g.wb := by
  cases op <;> simp [applyFull, Op.inverse, Op.swaps]

/-- **Composition laws**: rot90 = hflip after transpose, rot270 = vflip after transpose,
rot180 = vflip after hflip, transverse = rot180 after transpose. -/
theorem composition_laws (g : Grid) (y x : Nat) :
    (y < g.wb → x < g.hb →
      (applyFull .hflip (applyFull .transpose g)).at_ y x = (applyFull .rot90 g).at_ y x ∧
      (applyFull .vflip (applyFull .transpose g)).at_ y x = (applyFull .rot270 g).at_ y x ∧
      (applyFull .rot180 (applyFull .transpose g)).at_ y x = (applyFull .transverse g).at_ y x) ∧
    (y < g.hb → x < g.wb →
      (applyFull .vflip (applyFull .hflip g)).at_ y x = (applyFull .rot180 g).at_ y x) := by
  constructor
  · intro hy hx
    have hx' : g.hb - 1 - x < g.hb := by omega
    have hy' : g.wb - 1 - y < g.wb := by omega
    simp only [applyFull, moveBlock, Op.swaps, Op.mirX, Op.mirY, blockOp, Nat.add_zero, Bool.true_and,
      Bool.false_and, hx, hy, hx', hy', decide_true, decide_false, if_true, if_false, Bool.false_eq_true, and_self]
  · intro hy hx
    have hx' : g.wb - 1 - x < g.wb := by omega
    simp only [applyFull, moveBlock, Op.swaps, Op.mirX, Op.mirY, blockOp, Nat.add_zero, Bool.true_and,
      Bool.false_and, hx, hy, hx', decide_true, decide_false, if_true, if_false, Bool.false_eq_true]

/-- **Block algebra** used by the laws above. -/
theorem block_algebra (b : Block) (hb : IsBlock b) :
    trB (trB b) = b ∧ negCols (negCols b) = b ∧ negRows (negRows b) = b ∧
    trB (negCols b) = negRows (trB b) ∧ trB (negRows b) = negCols (trB b) ∧
    negCols (negRows b) = negRows (negCols b) :=
  ⟨trB_trB b hb, negCols_negCols b hb, negRows_negRows b hb, trB_negCols b, trB_negRows b, negCols_negRows b⟩

/-- **Perfect** holds exactly when every source dimension that the operation mirrors is a
whole number of iMCUs ... -/
theorem perfect_iff (w h mw mh : Nat) (op : Op) :
    perfect w h mw mh op = true ↔ ((op.needsW = true → w % mw = 0) ∧ (op.needsH = true → h % mh = 0)) := by
  cases op <;> simp [perfect, Op.needsW, Op.needsH, Op.swaps, Op.mirX, Op.mirY]

/-- ... and **a request flagged perfect fails instead of producing an imperfect result**. -/
theorem perfect_request_fails (srcW srcH hs vs nc : Nat) (op : Op) (trim gray crop : Bool) (cx cy cw ch : Nat)
    (h : perfect srcW srcH (if (if gray && nc == 3 then 1 else nc) == 1 then 8 else hs * 8)
          (if (if gray && nc == 3 then 1 else nc) == 1 then 8 else vs * 8) op = false) :
    plan srcW srcH hs vs nc op true trim gray crop cx cy cw ch = none := by
  unfold plan
  simp only [Bool.true_and, h, Bool.not_false, if_true]

/-- **Trimming removes exactly the partial iMCU** at a mirrored edge: with no crop the
trimmed size is the largest multiple of the iMCU size (when at least one iMCU fits). -/
theorem trim_drops_partial (full i : Nat) (hpos : full / i > 0) :
    trimEdge true full i 0 full = full / i * i ∧ trimEdge false full i 0 full = full := by
  unfold trimEdge
  simp [hpos]

/-- **Quantisation tables are those of the source, transposed iff the operation
transposes**, and transposing twice gives the table back. -/
theorem quant_transposed (op : Op) (q : List Nat) (hq : q.length = 64) :
    (op.swaps = false → xformQuant op q = q) ∧
    (op.swaps = true → ∀ k, k < 64 → (xformQuant op q).getD k 0 = q.getD ((k % 8) * 8 + k / 8) 0) ∧
    xformQuant op (xformQuant op q) = q := by
  refine ⟨fun h => by simp [xformQuant, h], fun h k hk => by simp only [xformQuant, h, if_true]; exact getD_map_range _ 64 k 0 hk, ?_⟩
  by_cases h : op.swaps = true
  · simp only [xformQuant, h, if_true]
    have : q = (List.range 64).map (fun k => q.getD k 0) := by
      apply List.ext_getElem
      · simp; exact hq
      · intro k h1 h2; simp [List.getD_eq_getElem?_getD, List.getElem?_eq_getElem h1]
    conv => rhs; rw [this]
    apply map_range_ext
    intro k hk
    rw [getD_map_range _ 64 _ 0 (by omega)]
    congr 1; omega
  · simp [xformQuant, h]

-- non-vacuity: a 2x3-block grid, rot90 then rot270
example : let g : Grid := ⟨2, 3, fun y x => (List.range 64).map (fun k => ((y * 100 + x * 10 + k : Nat) : Int))⟩
    (applyFull .rot270 (applyFull .rot90 g)).at_ 1 2 = g.at_ 1 2 ∧ (applyFull .rot90 g).hb = 3 := by decide

end LJT.C06
