/* the GIF reader is only part of cjpeg: compile it into the executor */
#define GIF_SUPPORTED
#include "rdgif.c"
