import LJT.Ops.Util
import LJT.Model.DCT
namespace LJT.Ops
open LJT.DCT

def c07Mix (x : Nat) : Nat :=
  let m := 18446744073709551616
  let x := (x + 0x9E3779B97F4A7C15) % m
  let x := ((x ^^^ (x >>> 30)) * 0xBF58476D1CE4E5B9) % m
  let x := ((x ^^^ (x >>> 27)) * 0x94D049BB133111EB) % m
  x ^^^ (x >>> 31)

def c07Sample (seed kind max c x y : Nat) : Int :=
  let M := max + 1
  let m64 := 18446744073709551616
  match kind with
  | 0 => ((c07Mix ((seed * 1000003 + c * 7919 + y * 104729 + x) % m64) % M : Nat) : Int)
  | 1 => ((c07Mix ((seed + c) % m64) % M : Nat) : Int)
  | 2 =>
    let lo := c07Mix seed % M; let hi := c07Mix ((seed + 1) % m64) % M
    if (x / 3 + y / 5 + c) % 2 == 0 then (lo : Int) else (hi : Int)
  | 3 => (((((x * (1 + seed % 7) + y * (1 + seed % 5)) * M / 64 + c * 17) % M) : Nat) : Int)
  | 4 => if (x + y + c) % 2 == 1 then (max : Int) else 0
  | 5 =>
    let a : Int := (((x * 3 + y * 2) % 64 : Nat) : Int) - 32
    let v : Int := ((M / 2 : Nat) : Int) + Int.tdiv (a * (M : Int)) 256
    let v := v + ((c07Mix ((seed + y * 4099 + x * 3 + c) % m64) % 5 : Nat) : Int) - 2
    if v < 0 then 0 else if v > max then max else v
  | _ => if (seed + c) % 2 == 1 then (max : Int) else 0

def c07Quant (ts tkind t k : Nat) : Nat :=
  let h := c07Mix ((ts * 4096 + t * 64 + k) % 18446744073709551616)
  match tkind with
  | 0 => 1
  | 2 => 1 + h % 255
  | 3 => let e := h % 15; 2 ^ e + (h >>> 8) % 2 ^ e
  | 4 => if h % 8 == 0 then 1000 + (h >>> 8) % 31768 else 1 + (h >>> 8) % 20
  | 5 => [255, 256, 257, 8191, 8192, 8193, 16384, 32767, 1, 2].getD (h % 10) 1
  | _ => if k == ts % 64 then 256 else 1 + h % 256

def c07fnv16 (h : Nat) (v : Int) : Nat :=
  let u := (v % 65536).toNat
  let h := ((h ^^^ (u % 256)) * 1099511628211) % 18446744073709551616
  ((h ^^^ (u / 256)) * 1099511628211) % 18446744073709551616

def fnvBytes (h : Nat) (v nb : Nat) : Nat :=
  (List.range nb).foldl (fun h i => ((h ^^^ ((v >>> (8 * i)) % 256)) * 1099511628211) % 18446744073709551616) h

def opC07 : List String → Option String
  | ["recip", W, lo, hi] => do
    let W ← nat? W; let lo ← nat? lo; let hi ← nat? hi
    let h := (List.range (hi - lo)).foldl (fun h i =>
      let (rc, co, sh) := computeReciprocal W (lo + i)
      fnvBytes (fnvBytes (fnvBytes h rc 4) co 4) (sh + W).toNat 1) 14695981039346656037
    some s!"{h}"
  | "quant" :: W :: d :: ws => do
    let W ← nat? W; let d ← nat? d; let ws ← ints? ws
    some (joinInt ((ws.take 64).map (quantize8 W d)))
  | ["rt", prec, nc, w, h, iseed, kind, ts, tkind, ntbl] => do
    let prec ← nat? prec; let nc ← nat? nc; let w ← nat? w; let h ← nat? h
    let iseed ← nat? iseed; let kind ← nat? kind; let ts ← nat? ts; let tkind ← nat? tkind; let ntbl ← nat? ntbl
    let ntbl := if tkind == 1 && ntbl > 2 then 2 else ntbl
    let max := 2 ^ prec - 1
    let tables : List (List Nat) := (List.range ntbl).map (fun t =>
      if tkind == 1 then
        scaleTable (if t == 0 then Gen.Src.std_luminance_quant_tbl else Gen.Src.std_chrominance_quant_tbl)
          (qualityScaling ((1 + ts % 100 : Nat) : Int)) false
      else (List.range 64).map (c07Quant ts tkind t))
    let hb := (h + 7) / 8; let wb := (w + 7) / 8
    let (ch, sh) := (List.range nc).foldl (fun acc ci =>
      let q := tables.getD (ci % ntbl) []
      (List.range hb).foldl (fun acc by_ =>
        (List.range wb).foldl (fun (acc : Nat × Nat) bx =>
          let blk := blockOf w h (fun x y => c07Sample iseed kind max ci x y) by_ bx
          let coefs := forwardBlock prec 16 q blk
          let dec := idctIslow prec coefs q
          let ch := coefs.foldl c07fnv16 acc.1
          let sh := (List.range 64).foldl (fun s k =>
            if by_ * 8 + k / 8 < h ∧ bx * 8 + k % 8 < w then c07fnv16 s (dec.getD k 0) else s) acc.2
          (ch, sh)) acc) acc) (14695981039346656037, 14695981039346656037)
    some s!"{ch} {sh} w0"
  | "blk" :: prec :: rest => do
    let prec ← nat? prec
    let v ← ints? rest
    if v.length < 128 then none else
    let q := (v.take 64).map Int.toNat
    let s := (v.drop 64).take 64
    let coefs := forwardBlock prec 16 q s
    let dec := idctIslow prec coefs q
    some (joinInt coefs ++ " | " ++ joinInt dec)
  | _ => none

end LJT.Ops
