"""C14 - allocation failures are survived, nothing leaks, configured limits hold."""
ID = "C14"
VARIANTS = ["san"]
HARNESS_FLAGS = ("-DC14_WRAP -Wl,--wrap=jpeg_get_small -Wl,--wrap=jpeg_free_small -Wl,--wrap=jpeg_get_large -Wl,--wrap=jpeg_free_large "
                 "-Wl,--wrap=jpeg_mem_available -Wl,--wrap=malloc -Wl,--wrap=free")
RULE = ("the executor is linked with --wrap for jpeg_get_small/large, jpeg_free_small/large, jpeg_mem_available, malloc and free, so every "
        "allocation the library makes during an API call is counted, can be made to fail, and is tracked until it is freed.  afail: a "
        "catalogue of 27 scenarios (tj3Init, tj3Compress8/12/16 lossy, lossless, progressive, arithmetic, optimised, with restarts; "
        "tj3DecompressHeader + tj3Decompress8/12/16, tj3DecompressToYUV8, scaled with merged upsampling; tj3Transform plain, from "
        "progressive, to progressive, optimised; tj3Destroy; and, on images whose JPEG outgrows the initial destination buffer so that it "
        "is re-allocated while armed: tj3EncodeYUV8 + tj3CompressFromYUV8, tj3EncodeYUVPlanes8 + tj3CompressFromYUVPlanes8, tj3Compress8 "
        "into a re-used buffer, tj3DecompressToYUVPlanes8 + tj3DecodeYUVPlanes8, scaled tj3DecompressToYUV8 + tj3DecodeYUV8, "
        "tj3SetICCProfile + tj3GetICCProfile, tj3Transform with two transforms, tj3SaveImage8 + tj3LoadImage8, the legacy "
        "tjCompress2 / tjDecompress2 / tjDecompressToYUV2 / tjCompressFromYUV; and call sequences on one instance over images with and "
        "without an ICC profile: header reads, decompressions, transformations, profile collection, TJPARAM_SAVEMARKERS changes) x the k-th allocation failing for every k up to beyond the number of "
        "allocations (pairs k1,k2 in the thorough tier): the call must return (error or success), ASan/UBSan must stay silent, and after "
        "the handles are destroyed and returned buffers freed no block obtained during the calls may remain.  limit: TJPARAM_MAXPIXELS "
        "at, below and above the image area; TJPARAM_SCANLIMIT around the 10 scans of a progressive image for decompression and "
        "transformation; TJPARAM_MAXMEMORY against progressive decompression, progressive / optimised / lossless compression and "
        "transformation of images whose whole-image buffers are below and above the limit, with the peak of library-level working "
        "memory measured by the wrappers.  memtrace -> memreplay: the allocation trace and the library's own usage counter (as passed "
        "to jpeg_mem_available) of repeated operations on one instance are replayed through the Lean model, whose counter must agree")
TRUSTED = ["the --wrap layer sees every allocation of the static library; ASan observes memory corruption after failed allocations"]
ASSUMPTIONS = ["the limits are those TurboJPEG exposes (TJPARAM_MAXMEMORY in megabytes, TJPARAM_MAXPIXELS, TJPARAM_SCANLIMIT); strip buffers and "
               "non-virtual allocations are allowed 1 MB on top of the configured maximum"]

NSCEN = 16
NSCEN2 = 25          # scenarios 16..24: the remaining entry points on images whose JPEG outgrows the initial 4 KB destination buffer


def classify(op, R):
    p = op.split(" ")
    if p[0] == "afail":
        r = R.split(" ")
        return "afail:scen%s:%s" % (p[1], "failed" if "failed1" in R or "failed2" in R else "nofail")
    if p[0] == "limit": return "limit:k%s:m%s" % (p[1], p[3])
    return p[0]


def gen_ops(rng, tier):
    big = tier == "thorough"
    ops = []
    for scen in range(NSCEN):
        seed = rng.randrange(1 << 20)
        for k in range(0, 75):
            ops.append("afail %d %d %d 0" % (scen, seed, k))
        if big:
            for _ in range(150):
                k1 = rng.randint(1, 60); k2 = k1 + rng.randint(1, 30)
                ops.append("afail %d %d %d %d" % (scen, rng.randrange(1 << 20), k1, k2))
    for scen in range(NSCEN, NSCEN2):
        seed = rng.randrange(1 << 20)
        for k in range(0, 135):
            ops.append("afail %d %d %d 0" % (scen, seed, k))
        if big:
            for _ in range(150):
                k1 = rng.randint(1, 110); k2 = k1 + rng.randint(1, 30)
                ops.append("afail %d %d %d %d" % (scen, rng.randrange(1 << 20), k1, k2))
    # call sequences on one instance over images with and without an ICC profile (25: header, header; 26: seeded mixes of header reads,
    # decompressions, transformations, profile collection and TJPARAM_SAVEMARKERS changes), without and with allocation failures
    for scen in (25, 26):
        for i in range(200 if big else 40):
            ops.append("afail %d %d %d 0" % (scen, rng.randrange(1 << 20), 0 if i % 2 == 0 else rng.randint(1, 60)))
    for (a, b) in ((40, 30), (1, 1), (33, 17), (640, 480)):
        for delta in (0, -1, 1, -a * b + 1, 1000):
            ops.append("limit 0 %d %d %d" % (a, b, delta))
            # the limit must hold whatever the instance did before: nothing, the header of another image, a whole other image,
            # and through the planar-YUV entry point
            for hist in (1, 2, 3, 4):
                ops.append("limit 0 %d %d %d %d" % (a, b, delta, hist))
    for lim in (0, 1, 5, 9, 10, 11, 100):
        for tr in (0, 1):
            ops.append("limit 1 %d %d 0" % (lim, tr))
            for hist in ((1, 2, 3) if tr == 0 else (1, 2)):       # TurboJPEG 2.x calls without TJFLAG_LIMITSCANS in the history
                ops.append("limit 1 %d %d %d" % (lim, tr, hist))
    for mode in (0, 1, 2, 3, 4):
        for (lim, sz) in ((1, 900), (2, 1000), (1, 100), (0, 400), (64, 700), (3, 1100), (1, 600)):
            ops.append("limit 2 %d %d %d" % (lim, mode, sz))
    for kind in (0, 1):
        for reps in (1, 3, 8, 20):
            ops.append("memtrace %d %d %d %d" % (kind, rng.randrange(1 << 20), reps, rng.choice([1, 2, 8])))
    return ops


def stage2(ops, model_lines, res_by_v):
    out = []
    v = list(res_by_v.keys())[0]
    for i, op in enumerate(ops):
        if op.startswith("memtrace "):
            R = res_by_v[v][i][0]
            p = R.split(" ")
            if len(p) > 2 and p[0] == "skip":
                out.append("memreplay " + " ".join(p[2:]))
    return out, []


def search(ctx, failing_ops):
    return []


MANIFEST = {
    "text": ("Kernel-checked Lean theorems on the memory manager's bookkeeping: the usage counter that enforces max_memory_to_use equals the "
             "bytes outstanding after every allocation (successful or failed), pool release and single release, starting from an empty "
             "manager; a failed allocation changes nothing; destruction leaves nothing outstanding whatever happened before; after the "
             "image pool is released exactly the permanent pool remains counted; with a limit the grant to virtual arrays never exceeds "
             "limit - already.  The real library's allocation trace and its own counter are replayed through the model; fault injection "
             "at every allocation index, leak tracking and the three configured limits are checked on the real code."),
    "design_ref": "DESIGN.md 6.14",
    "note": ("Partial: survival of allocation failures is a property of every call site and is exercised, not proved. Trusted: Lean kernel; "
             "axioms propext, Quot.sound, Classical.choice; the --wrap interposition layer; ASan."),
    "technique": "Lean 4 proof (invariant over memory-manager operations) + trace replay of the real allocator through the model + exhaustive single-fault injection with leak tracking",
}
