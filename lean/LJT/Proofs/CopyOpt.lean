import LJT.Model.CopyOpt
namespace LJT.CopyOpt

theorem transform_spec (saved : Nat → Bool) (o : Opt) (wj wa : Bool) (src : List (Nat × List Nat))
    (hsrc : ∀ m ∈ src, m.1 = COM ∨ isAPPn m.1 = true) :
    transform saved o wj wa src =
      src.filter (fun m => documented o m && !(wj && isJFIF m) && !(wa && isAdobe m)) := by
  unfold transform
  rw [List.filter_filter]
  apply List.filter_congr
  intro m hm
  have hc := hsrc m hm
  have key : (execKeeps o wj wa m && setup saved o m.1) =
      (documented o m && !(wj && isJFIF m) && !(wa && isAdobe m)) := by
    unfold execKeeps setup setupAdds documented
    rcases hc with hc | hc
    · cases o <;> simp [hc, COM, APP0, isAPPn] <;> (try cases (saved 254)) <;> simp
    · have h2 : (m.1 == COM) = false := by
        simp only [isAPPn, decide_eq_true_eq] at hc
        simp [COM]; omega
      cases o <;> simp [hc, h2, APP0]
      all_goals (cases hs : saved m.1 <;> cases h3 : (m.1 == 226) <;> simp_all)
  exact key

end LJT.CopyOpt
