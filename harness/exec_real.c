/* Real-code executor: one op per line on stdin -> "R ..." (+ "O ...") on stdout.
 * Property-specific operations live in ops_*.c, included here so that the
 * whole executor is one translation unit. */
#include "exec_common.h"
#include <signal.h>
#include <unistd.h>
#include "ops_c19.c"
#include "ops_c20.c"
#include "ops_c13.c"
#include "ops_c16.c"
#include "ops_c02.c"
#include "ops_c10.c"
#include "ops_c08.c"
#include "ops_c06.c"
#include "ops_c07.c"
#include "ops_c18.c"
#include "ops_c03.c"
#include "ops_c09.c"
#include "ops_c17.c"
#include "ops_c01.c"
#include "ops_c05.c"
#include "ops_c11.c"
#include "ops_c14.c"
#include "ops_c12.c"
#include "ops_c15.c"

static void on_alarm(int sig)
{
  static const char msg[] = "OP-TIMEOUT: the operation in flight did not finish within its time limit\n";
  (void)sig;
  if (write(2, msg, sizeof(msg) - 1) < 0) _exit(6);
  _exit(6);
}

int main(void)
{
  int limit = getenv("EXEC_OP_TIMEOUT") ? atoi(getenv("EXEC_OP_TIMEOUT")) : 60;
  signal(SIGALRM, on_alarm);
  ssize_t len;
  setvbuf(stdout, NULL, _IOLBF, 1 << 16);
  while ((len = getline(&g_line, &g_cap, stdin)) > 0) {
    toks_t t = tokenize(g_line);
    int done = 0;
    alarm((unsigned)limit);
    if (t.n == 0) { printf("R skip\nE\n"); continue; }
    if (!done) done = dispatch_c19(&t);
    if (!done) done = dispatch_c20(&t);
    if (!done) done = dispatch_c13(&t);
    if (!done) done = dispatch_c16(&t);
    if (!done) done = dispatch_c02(&t);
    if (!done) done = dispatch_c10(&t);
    if (!done) done = dispatch_c08(&t);
    if (!done) done = dispatch_c06(&t);
    if (!done) done = dispatch_c07(&t);
    if (!done) done = dispatch_c18(&t);
    if (!done) done = dispatch_c03(&t);
    if (!done) done = dispatch_c09(&t);
    if (!done) done = dispatch_c17(&t);
    if (!done) done = dispatch_c01(&t);
    if (!done) done = dispatch_c05(&t);
    if (!done) done = dispatch_c11(&t);
    if (!done) done = dispatch_c14(&t);
    if (!done) done = dispatch_c12(&t);
    if (!done) done = dispatch_c15(&t);
    if (!done) printf("R skip\n");
    printf("E\n");      /* end of this op: everything before a crash belongs to the op in flight */
    fflush(stdout);
  }
  return 0;
}
