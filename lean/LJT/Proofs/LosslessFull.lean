import LJT.Proofs.LosslessShape
import LJT.Proofs.LosslessScan
/-! The whole lossless scan: component rows -> differences -> MCUs -> restart intervals -> bytes, and back. -/
namespace LJT.LL
open LJT.Huff LJT.Bits

theorem segmentsOf_go_eq (R : Nat) : ∀ (f : Nat) (l : List (List (Nat × Int))),
    segmentsOf.go R f l = (chunksF R f l).map List.flatten := by
  intro f
  induction f with
  | zero => intro l; rfl
  | succ f ih =>
    intro l
    cases l with
    | nil => rfl
    | cons r rs => simp only [segmentsOf.go, chunksF, List.map_cons, ih]

/-- the restart intervals of a scan as lists of MCUs: `R` MCU rows each (all rows when `R = 0`) -/
def segMcus (R : Nat) (rowsM : List (List (List Int))) : List (List (List Int)) :=
  if R = 0 then [rowsM.flatten] else (chunksF R rowsM.length rowsM).map List.flatten

theorem flatten_map_flatMap {α β : Type} (g : α → List β) : ∀ (ch : List (List α)),
    (ch.map (fun r => r.flatMap g)).flatten = ch.flatten.flatMap g := by
  intro ch
  induction ch with
  | nil => rfl
  | cons r rs ih => simp [List.flatMap_append, ih]

theorem segmentsOf_mcus (R : Nat) (rowsM : List (List (List Int))) :
    segmentsOf R (rowsM.map (fun r => r.flatMap (mcuItems 0))) = (segMcus R rowsM).map (fun seg => seg.flatMap (mcuItems 0)) := by
  unfold segmentsOf segMcus
  by_cases hR : R = 0
  · simp only [hR, if_true, List.map_cons, List.map_nil]
    rw [flatten_map_flatMap]
  · simp only [hR, if_false]
    rw [segmentsOf_go_eq, List.length_map, chunksF_map, List.map_map, List.map_map]
    apply List.map_congr_left
    intro ch _
    exact flatten_map_flatMap (mcuItems 0) ch

theorem segMcus_flatten (R : Nat) (rowsM : List (List (List Int))) : (segMcus R rowsM).flatten = rowsM.flatten := by
  unfold segMcus
  by_cases hR : R = 0
  · simp [hR]
  · simp only [hR, if_false]
    rw [← List.flatten_flatten, chunksF_flatten R (by omega) _ _ (Nat.le_refl _)]

theorem segMcus_ne_nil (R : Nat) (rowsM : List (List (List Int))) (h : rowsM ≠ []) : segMcus R rowsM ≠ [] := by
  unfold segMcus
  by_cases hR : R = 0
  · simp [hR]
  · simp only [hR, if_false]
    cases rowsM with
    | nil => exact absurd rfl h
    | cons r rs => simp [chunksF]

theorem mapM_all2 {α β : Type} (f : α → Option β) : ∀ (l : List α) (r : List β), l.mapM f = some r →
    All2 (fun a b => f a = some b) l r := by
  intro l
  induction l with
  | nil => intro r h; simp at h; subst h; exact All2.nil
  | cons a as ih =>
    intro r h
    simp only [List.mapM_cons, Option.bind_eq_bind] at h
    cases ha : f a with
    | none => rw [ha] at h; simp at h
    | some b =>
      rw [ha] at h
      simp only [Option.bind_some] at h
      cases hr : as.mapM f with
      | none => rw [hr] at h; simp at h
      | some bs =>
        rw [hr] at h
        simp at h
        subst h
        exact All2.cons ha (ih bs hr)

theorem all2_of_pointwise' {α β : Type} {R : α → β → Prop} (d : β) : ∀ (b : List β) (f : Nat → α) (s : Nat),
    (∀ i, i < b.length → R (f (s + i)) (b.getD i d)) → All2 R ((List.range' s b.length).map f) b := by
  intro b
  induction b with
  | nil => intro f s _; exact All2.nil
  | cons x xs ih =>
    intro f s h
    simp only [List.length_cons, List.range'_succ, List.map_cons]
    refine All2.cons ?_ (ih f (s + 1) ?_)
    · have := h 0 (by simp); simpa using this
    · intro i hi
      have := h (i + 1) (by simp; omega)
      rw [show s + (i + 1) = s + 1 + i by omega] at this
      simpa using this

theorem all2_of_pointwise {α β : Type} {R : α → β → Prop} (d : β) (f : Nat → α) (b : List β)
    (h : ∀ i, i < b.length → R (f i) (b.getD i d)) : All2 R ((List.range b.length).map f) b := by
  rw [List.range_eq_range']
  exact all2_of_pointwise' d b f 0 (by intro i hi; simpa using h i hi)


theorem all2_map_left {α β γ : Type} {R : β → γ → Prop} (g : α → β) : ∀ {a : List α} {c : List γ},
    All2 R (a.map g) c → All2 (fun x y => R (g x) y) a c := by
  intro a
  induction a with
  | nil => intro c h; cases h; exact All2.nil
  | cons x xs ih => intro c h; cases h with | cons h1 h2 => exact All2.cons h1 (ih h2)

theorem sum_map_const {α : Type} (l : List α) (f : α → Nat) (w : Nat) (h : ∀ x ∈ l, f x = w) :
    (l.map f).sum = l.length * w := by
  induction l with
  | nil => simp
  | cons a as ih =>
    simp only [List.map_cons, List.sum_cons, List.length_cons, h a (by simp), ih (fun x hx => h x (by simp [hx]))]
    rw [Nat.succ_mul]; omega

theorem mcuRow_length (rows : List (List Int)) (w : Nat) (hne : rows ≠ []) (hw : ∀ r ∈ rows, r.length = w) :
    (mcuRow rows).length = w := by
  unfold mcuRow
  cases rows with
  | nil => exact absurd rfl hne
  | cons r rs => simp [hw r (by simp)]

theorem mcuRow_getD (rows : List (List Int)) (w x : Nat) (hne : rows ≠ []) (hw : ∀ r ∈ rows, r.length = w) (hx : x < w) :
    (mcuRow rows).getD x [] = rows.map (·.getD x 0) := by
  unfold mcuRow
  have hl : (rows.headD []).length = w := by
    cases rows with
    | nil => exact absurd rfl hne
    | cons r rs => simp [hw r (by simp)]
  rw [hl, getD_map_lt _ _ x 0 [] (by simp [hx])]
  have : (List.range w).getD x 0 = x := by
    simp [List.getD_eq_getElem?_getD, hx]
  rw [this]

end LJT.LL
