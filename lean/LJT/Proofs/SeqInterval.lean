import LJT.Proofs.SeqHuff
/-! Sequential Huffman coding of a whole restart interval: blocks of several components in MCU order, each
with the tables and the DC predictor of its component. -/
namespace LJT.SeqHuff
open LJT.Huff

/-- the DC differences the encoder forms stay inside the range the block coder accepts -/
def DiffsOK : Array Int → List Blk → Prop
  | _, [] => True
  | pred, b :: rest => (b.dc - pred.getD b.slot 0).natAbs < 32768 ∧ DiffsOK (pred.setIfInBounds b.slot b.dc) rest

/-- encoder and decoder tables of every slot are derived from one table pair -/
def TabsOK (ct : Nat → Option (CDerived × CDerived)) (dt : Nat → Option (DDerived × DDerived)) (slot : Nat) : Prop :=
  ∀ cdc cac, ct slot = some (cdc, cac) → ∃ tdc tac ddc dac, dt slot = some (ddc, dac) ∧
    mkCDerived true false tdc = some cdc ∧ mkDDerived true false tdc = some ddc ∧
    mkCDerived false false tac = some cac ∧ mkDDerived false false tac = some dac

theorem decodeBlocks_encodeBlocks (ct : Nat → Option (CDerived × CDerived)) (dt : Nat → Option (DDerived × DDerived)) :
    ∀ (blocks : List Blk) (pred : Array Int) (bits rest : List Bool),
    (∀ b ∈ blocks, TabsOK ct dt b.slot ∧ b.ac.length = 63 ∧ ∀ v ∈ b.ac, v.natAbs < 32768) →
    DiffsOK pred blocks → encodeBlocks ct pred blocks = some bits →
    decodeBlocks dt pred (blocks.map (·.slot)) (bits ++ rest) = some (blocks, rest) := by
  intro blocks
  induction blocks with
  | nil =>
    intro pred bits rest _ _ h
    simp only [encodeBlocks, Option.some.injEq] at h
    subst h
    rfl
  | cons b bl ih =>
    intro pred bits rest hall hd h
    obtain ⟨htab, hlen, hac⟩ := hall b (by simp)
    obtain ⟨hd1, hd2⟩ := hd
    simp only [encodeBlocks] at h
    cases hct : ct b.slot with
    | none => rw [hct] at h; cases h
    | some cc =>
      obtain ⟨cdc, cac⟩ := cc
      rw [hct] at h
      simp only at h
      obtain ⟨tdc, tac, ddc, dac, hdt, m1, m2, m3, m4⟩ := htab cdc cac hct
      cases hx : encodeBlock cdc cac (b.dc - pred.getD b.slot 0) b.ac with
      | none => rw [hx] at h; cases h
      | some x =>
        rw [hx] at h
        cases hy : encodeBlocks ct (pred.setIfInBounds b.slot b.dc) bl with
        | none => rw [hy] at h; cases h
        | some y =>
          rw [hy] at h
          simp only [Option.some.injEq] at h
          subst h
          have hb := decodeBlock_encodeBlock tdc tac cdc cac ddc dac m1 m2 m3 m4 (b.dc - pred.getD b.slot 0) b.ac hlen hd1 hac
            x (y ++ rest) hx
          have hrec := ih (pred.setIfInBounds b.slot b.dc) y rest (fun b' hb' => hall b' (by simp [hb'])) hd2 hy
          simp only [List.map_cons, decodeBlocks, hdt, List.append_assoc, hb]
          have e : pred.getD b.slot 0 + (b.dc - pred.getD b.slot 0) = b.dc := by omega
          rw [e, hrec]

end LJT.SeqHuff
