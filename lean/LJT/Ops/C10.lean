import LJT.Ops.Util
import LJT.Model.Color
namespace LJT.Ops
open LJT.Color

def c10Byte (seed k : Nat) : Nat := ((seed + 1) * (k + 17) * 40503 / 64) % 256

def opC10 : List String → Option String
  | ["cconv", pf, n, seed] => do
    let pf ← nat? pf; let n ← nat? n; let seed ← nat? seed
    let L ← layoutOfPF pf
    let row := (List.range (n * L.size)).map (fun i => (c10Byte seed i : Int))
    let ycc := compressRow L 128 n row
    let pl (f : Int × Int × Int → Int) := " ".intercalate (ycc.map (fun p => toString (f p)))
    some s!"{pl (·.1)} | {pl (·.2.1)} | {pl (·.2.2)} |"
  | ["dconv", pf, n, seed] => do
    let pf ← nat? pf; let n ← nat? n; let seed ← nat? seed
    let L ← layoutOfPF pf
    let ycc := (List.range n).map (fun i => ((c10Byte seed i : Int), (c10Byte (seed + 7919) i : Int), (c10Byte (seed + 2 * 7919) i : Int)))
    some (joinInt (emitRow L 128 255 ycc))
  | _ => none

end LJT.Ops
