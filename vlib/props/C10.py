"""C10 - results independent of pixel layout, row order and pitch."""
ID = "C10"
VARIANTS = ["san", "simd", "sse2"]
VARIANT_ALIAS = {"sse2": "simd"}
ENV = {"sse2": {"JSIMD_FORCESSE2": "1"}}
RULE = ("cconv/dconv: rows of pixels converted by the real RGB->YCbCr / YCbCr->RGB code for each of the 10 RGB-family pixel formats "
        "(scalar build and SIMD build), compared sample by sample with the layout-parametrised Lean converter (structured sweeps over "
        "the 2^24 colour cube: all (r,g) at several b, extremes, random); pfleg: the TurboJPEG 2.x entry points on one handle pair, every call another layout, padding and row order; pfeq: the same picture compressed from / decompressed to "
        "every layout with junk in unused bytes, pitch padding and both row orders, 8/12/16-bit, lossy and lossless, every subsampling incl. "
        "grayscale (oracle); variants: scalar build, SIMD build at its best instruction-set level, and the SIMD build held at SSE2 "
        "(each level has its own table of per-layout routines)")
TRUSTED = ["Model.Color is a hand model of jccolext.c / jdcolext.c with constants regenerated from the FIX(...) literals of the source"]
ASSUMPTIONS = ["'maximum sample value' for alpha is the maximum of the sample data type (_MAXJSAMPLE)"]

PFS = [0, 1, 2, 3, 4, 5, 7, 8, 9, 10]


def classify(op, R):
    p = op.split(" ")
    if p[0] in ("cconv", "dconv"):
        return "%s:pf%s" % (p[0], p[1])
    if p[0] == "pfleg":
        return "pfleg:ss%s" % p[1]
    return "pfeq:P%s:ll%s:ss%s" % (p[1], p[2], p[3])


def gen_ops(rng, tier):
    ops = []
    big = tier == "thorough"
    for pf in PFS:
        for i in range(60 if big else 8):
            n = rng.choice([1, 2, 3, 7, 8, 15, 16, 17, 31, 32, 33, 47, 64, 65, 100])
            ops.append("cconv %d %d %d" % (pf, n, rng.randrange(1 << 24)))
            ops.append("dconv %d %d %d" % (pf, n, rng.randrange(1 << 24)))
    for i in range(250 if big else 40):
        ll = int(rng.random() < .3)
        P = rng.choice([8, 8, 12, 16, 5]) if ll else rng.choice([8, 8, 12])
        ops.append("pfeq %d %d %d %d %d %d %d %d" % (P, ll, rng.choice([0, 1, 2, 2, 2, 3, 3, 4, 5, 6]), rng.choice([1, 7, 16, 17, 33, 40, rng.randint(1, 70), rng.randint(1, 130)]),
                                                     rng.choice([1, 8, 9, 16, 19]), rng.randrange(1 << 24), rng.randint(0, 1), rng.randint(0, 1)))
    # the 2.x entry points: one compressor and one decompressor handle, every call another layout / padding / row order
    for i in range(200 if big else 30):
        ops.append("pfleg %d %d %d %d" % (rng.choice([0, 1, 2, 2, 3, 4]), rng.choice([1, 7, 16, 17, 33, 40]), rng.choice([1, 8, 9, 16, 19]), rng.randrange(1 << 24)))
    # merged (fast) upsampling + crop + 4-sample layouts, both parities of the top row
    for P in (8, 12):
        for ss in (1, 2):
            for sd in (0, 1):
                ops.append("pfeq %d 0 %d 40 19 %d 1 0" % (P, ss, 1000 + sd))
                ops.append("pfeq %d 0 %d 17 9 %d 1 1" % (P, ss, 2000 + sd))
    return ops


def search(ctx, failing_ops):
    from .. import common as C
    import random
    rng = random.Random("search/%s" % ctx["seed"])
    ops = [o for o in gen_ops(rng, "quick") if o.startswith("pfeq")]
    # a row conversion that left the model: the same samples in every layout, and whole pictures of that width
    conv = []
    for o in failing_ops:
        p = o.split(" ")
        if p[0] in ("cconv", "dconv"):
            for pf in PFS:
                conv.append("%s %d %s %s" % (p[0], pf, p[2], p[3]))
            for ss in (0, 2):
                ops.append("pfeq 8 0 %d %s 9 %s 0 0" % (ss, p[2], p[3]))
    conv = sorted(set(conv))
    found = []
    for v, exe in ctx["exes"].items():
        res, _ = C.run_exec(exe, ops + conv)
        for op, (R, O) in zip(ops, res):
            if O and O.startswith("fail"):
                found.append((v, op, R, O))
        groups = {}
        for op, (R, O) in zip(conv, res[len(ops):]):
            p = op.split(" ")
            groups.setdefault((p[0], p[2], p[3]), {})[p[1]] = R
        for key, d in groups.items():
            if len(set(d.values())) > 1:
                ref = d.get("0")
                bad = [pf for pf, R in d.items() if R != ref]
                found.append((v, "%s %s %s %s" % (key[0], bad[0], key[1], key[2]), d[bad[0]][:120],
                              "fail %s: the same %s samples converted from/to pixel format %s give other values than from/to format 0 (%s)" % (key[0], key[1], bad[0], (ref or "")[:80])))
    return found


MANIFEST = {
    "text": ("Kernel-checked Lean theorems: the regenerated offset tables give a valid layout for every RGB-family format and the "
             "TurboJPEG offsets equal the libjpeg offsets of the mapped colourspace; for all valid layouts compression depends only "
             "on the colour samples (not the layout or the unused byte), decompression places ycc2rgb of the samples at the layout's "
             "offsets and the maximum in the fourth sample; gray = luma. The converter model is tied to the real scalar and SIMD "
             "converters sample by sample for all 10 formats; row order, pitch, 12/16-bit and lossless are decided by the pfeq oracle."),
    "design_ref": "DESIGN.md 6.10",
    "note": ("Trusted: Lean kernel; axioms propext, Quot.sound, Classical.choice; hand model of the converters (tied by correspondence, "
             "constants from Gen); pitch/row-order pointer arithmetic in turbojpeg-mp.c is not modelled (oracle only)."),
    "technique": "Lean 4 proof (layout-parametric converter, decide over regenerated tables) + per-sample model/code correspondence",
}
