/-! Lossless transforms (src/transupp.c: jtransform_request_workspace, trim_*,
jtransform_perfect_transform, transpose_critical_parameters, the block movers
do_flip_h/do_flip_v/do_transpose/do_transverse/do_rot_90/180/270, do_crop) as functions
on grids of DCT blocks.  A block is a list of 64 coefficients in natural order
(index `row * 8 + col`). -/
namespace LJT.Xform

inductive Op | none | hflip | vflip | transpose | transverse | rot90 | rot180 | rot270
deriving Repr, DecidableEq

def Op.fromTJ : Nat → Op
  | 0 => .none | 1 => .hflip | 2 => .vflip | 3 => .transpose | 4 => .transverse
  | 5 => .rot90 | 6 => .rot180 | _ => .rot270

/-- does the operation exchange rows and columns? -/
def Op.swaps : Op → Bool
  | .transpose | .transverse | .rot90 | .rot270 => true
  | _ => false
/-- is the destination mirrored left-right / top-bottom? -/
def Op.mirX : Op → Bool
  | .hflip | .transverse | .rot90 | .rot180 => true
  | _ => false
def Op.mirY : Op → Bool
  | .vflip | .transverse | .rot180 | .rot270 => true
  | _ => false

def Op.inverse : Op → Op
  | .rot90 => .rot270 | .rot270 => .rot90 | o => o

abbrev Block := List Int

def zeroBlock : Block := List.replicate 64 0

/-- transposition of an 8x8 coefficient block -/
def trB (b : Block) : Block := (List.range 64).map (fun k => b.getD ((k % 8) * 8 + k / 8) 0)
/-- sign change of the odd columns (horizontal mirror) -/
def negCols (b : Block) : Block := (List.range 64).map (fun k => if (k % 8) % 2 = 1 then - b.getD k 0 else b.getD k 0)
/-- sign change of the odd rows (vertical mirror) -/
def negRows (b : Block) : Block := (List.range 64).map (fun k => if (k / 8) % 2 = 1 then - b.getD k 0 else b.getD k 0)

/-- what happens to the coefficients of a block that is (transposed,) mirrored in x / y -/
def blockOp (swap mx my : Bool) (b : Block) : Block :=
  let b1 := if swap then trB b else b
  let b2 := if mx then negCols b1 else b1
  if my then negRows b2 else b2

/-- one component as a function from block coordinates to blocks -/
structure Grid where
  hb : Nat
  wb : Nat
  at_ : Nat → Nat → Block

/-- **the block movers in closed form.**  `(y, x)`: destination block; `xb, yb`: crop offset
of this component in blocks; `cw, ch`: extent (in destination-frame blocks) of the area made
of whole iMCUs, inside which mirroring is possible; blocks beyond it stay in place (only
transposed if the operation transposes). -/
def moveBlock (op : Op) (src : Nat → Nat → Block) (cw ch xb yb : Nat) (y x : Nat) : Block :=
  let X := x + xb
  let Y := y + yb
  let mx := op.mirX && decide (X < cw)
  let my := op.mirY && decide (Y < ch)
  let X' := if mx then cw - 1 - X else X
  let Y' := if my then ch - 1 - Y else Y
  let sb := if op.swaps then src X' Y' else src Y' X'
  blockOp op.swaps mx my sb

/-- `jtransform_perfect_transform` -/
def perfect (w h mcuW mcuH : Nat) (op : Op) : Bool :=
  match op with
  | .hflip | .rot270 => w % mcuW == 0
  | .vflip | .rot90 => h % mcuH == 0
  | .transverse | .rot180 => w % mcuW == 0 && h % mcuH == 0
  | _ => true

/-- `trim_right_edge` / `trim_bottom_edge`: `out` = current output size, `i` = iMCU size,
`off` = crop offset in iMCUs, `full` = uncropped size -/
def trimEdge (trim : Bool) (out i off full : Nat) : Nat :=
  let m := out / i
  if trim && decide (m > 0) && (off + m == full / i) then m * i else out

/-- which source dimension has to be a whole number of iMCUs for the operation to be perfect -/
def Op.needsW (op : Op) : Bool := if op.swaps then op.mirY else op.mirX
def Op.needsH (op : Op) : Bool := if op.swaps then op.mirX else op.mirY

structure Plan where
  outW : Nat
  outH : Nat
  iW : Nat            -- destination iMCU width / height in samples
  iH : Nat
  xoff : Nat          -- crop offset in iMCUs
  yoff : Nat
  fullW : Nat         -- uncropped destination-frame dimensions
  fullH : Nat
  dh : Nat            -- destination luma sampling factors
  dv : Nat
  ncOut : Nat
deriving Repr

/-- `jtransform_request_workspace` for the TurboJPEG way of requesting a crop
(`x, y` given, `w`/`h` = 0 meaning "to the edge"); `none` = error exit / not perfect -/
def plan (srcW srcH hs vs nc : Nat) (op : Op) (perfectReq trim gray crop : Bool)
    (cx cy cw ch : Nat) : Option Plan :=
  let ncOut := if gray && nc == 3 then 1 else nc
  if perfectReq && !(perfect srcW srcH (if ncOut == 1 then 8 else hs * 8) (if ncOut == 1 then 8 else vs * 8) op) then none else
  let fullW := if op.swaps then srcH else srcW
  let fullH := if op.swaps then srcW else srcH
  let dh := if ncOut == 1 then 1 else (if op.swaps then vs else hs)
  let dv := if ncOut == 1 then 1 else (if op.swaps then hs else vs)
  let iW := dh * 8
  let iH := dv * 8
  -- crop
  let r : Option (Nat × Nat × Nat × Nat) :=
    if crop then
      if (cw == 0 && cx ≥ fullW) || (ch == 0 && cy ≥ fullH) then none else
      let w' := if cw == 0 then fullW - cx else cw
      let h' := if ch == 0 then fullH - cy else ch
      if w' > fullW || h' > fullH then none                       -- crop extension: only for op none; not modelled
      else if cx ≥ fullW || cx > fullW - w' || cy ≥ fullH || cy > fullH - h' then none
      else some (w' + cx % iW, h' + cy % iH, cx / iW, cy / iH)
    else some (fullW, fullH, 0, 0)
  match r with
  | none => none
  | some (ow, oh, xo, yo) =>
    let ow' := if op.mirX then trimEdge trim ow iW xo fullW else ow
    let oh' := if op.mirY then trimEdge trim oh iH yo fullH else oh
    some ⟨ow', oh', iW, iH, xo, yo, fullW, fullH, dh, dv, ncOut⟩

def ceilDiv (a b : Nat) : Nat := (a + b - 1) / b

/-- one destination component: `ci` = 0 luma (sampling `dh x dv`) or chroma (1x1) -/
def component (p : Plan) (op : Op) (src : Nat → Nat → Block) (ci : Nat) : Grid :=
  let h := if ci == 0 then p.dh else 1
  let v := if ci == 0 then p.dv else 1
  let wb := ceilDiv (p.outW * h) p.iW
  let hb := ceilDiv (p.outH * v) p.iH
  let cw := (p.fullW / p.iW) * h
  let ch := (p.fullH / p.iH) * v
  ⟨hb, wb, moveBlock op src cw ch (p.xoff * h) (p.yoff * v)⟩

/-- `transpose_critical_parameters`: a quantisation table is transposed iff the operation
transposes -/
def xformQuant (op : Op) (q : List Nat) : List Nat :=
  if op.swaps then (List.range 64).map (fun k => q.getD ((k % 8) * 8 + k / 8) 0) else q

end LJT.Xform
