/* C11: only the documented extent of caller buffers is read or written.  Buffers are placed flush against
 * PROT_NONE pages (an access one byte outside is a SIGSEGV, reported by the checker as a crash of the op);
 * bytes of the buffer that belong to no row (padding) carry canaries. */
#include "exec_common.h"
#include <sys/mman.h>
#include <unistd.h>

typedef struct { unsigned char *map; size_t maplen; unsigned char *buf; size_t len; } c11_guard;

/* a buffer of `len` bytes whose end (flush = 1) or start (flush = 0) touches an inaccessible page; `skew` bytes of
   misalignment are subtracted / added so that every alignment 0..31 occurs */
static int c11_alloc(c11_guard *g, size_t len, int flush_end)
{
  size_t pg = (size_t)sysconf(_SC_PAGESIZE), body = (len + pg - 1) / pg * pg;
  if (body == 0) body = pg;
  g->maplen = body + 2 * pg;
  g->map = (unsigned char *)mmap(NULL, g->maplen, PROT_READ | PROT_WRITE, MAP_PRIVATE | MAP_ANONYMOUS, -1, 0);
  if (g->map == MAP_FAILED) return 0;
  mprotect(g->map, pg, PROT_NONE); mprotect(g->map + pg + body, pg, PROT_NONE);
  g->buf = flush_end ? g->map + pg + body - len : g->map + pg;
  g->len = len;
  return 1;
}
static void c11_free(c11_guard *g) { if (g->map && g->map != MAP_FAILED) munmap(g->map, g->maplen); g->map = NULL; }

static unsigned long long c11_maskdigest(const unsigned char *a, const unsigned char *b, unsigned char fa, unsigned char fb, size_t n, size_t *nwritten)
{
  unsigned long long h = 14695981039346656037ULL; size_t i, w = 0;
  for (i = 0; i < n; i++) { int wr = !(a[i] == fa && b[i] == fb); h ^= (unsigned long long)wr; h *= 1099511628211ULL; w += (size_t)wr; }
  *nwritten = w;
  return h;
}

/* g11d ss w h seed pf sfidx pitchpad bottomup flushend cropflag prec : decompress into a guarded buffer, twice with different
   prefill; result = digest of the write mask (1 = byte was written) over the documented size */
static int c11_g11d(toks_t *t)
{
  c03_job j; int pf = (int)tl(t, 5), sfi = (int)tl(t, 6), pad = (int)tl(t, 7), bu = (int)tl(t, 8), fe = (int)tl(t, 9), crop = (int)tl(t, 10), prec = (int)tl(t, 11), fl = (int)tl(t, 12), err = 0, nsf, sw, sh, ps, run;
  unsigned char *jp = NULL; unsigned long jn = 0; tjscalingfactor *sf = tj3GetScalingFactors(&nsf), f; c11_guard g[2]; size_t pitch, rowb, doc, ssz = prec <= 8 ? 1 : 2, nw = 0; unsigned char fill[2] = { 0x5A, 0xC3 };
  tjregion cr = { 0, 0, 0, 0 }; int rc[2] = { 0, 0 };
  memset(&j, 0, sizeof(j)); memset(g, 0, sizeof(g));
  j.ss = (int)tl(t, 1); j.w = (int)tl(t, 2); j.h = (int)tl(t, 3); j.prec = prec; j.seed = (unsigned long long)tll(t, 4); j.kind = 0; j.mode = 1; j.nc = j.ss == 3 ? 1 : 3;
  if (!c03_build(&j, &jp, &jn, &err)) { printf("R err build %d\n", err); return 1; }
  if (getenv("C11_DUMP")) { FILE *fp = fopen(getenv("C11_DUMP"), "wb"); fwrite(jp, 1, jn, fp); fclose(fp); }
  f = prec == 8 ? sf[sfi % nsf] : sf[8];
  if (j.nc == 1 && pf == TJPF_CMYK) pf = TJPF_GRAY;
  if (pf == TJPF_CMYK) pf = TJPF_RGB;
  ps = tjPixelSize[pf];
  sw = TJSCALED(j.w, f); sh = TJSCALED(j.h, f);
  if (crop && prec == 8) {
    static const int mcuw[7] = { 8, 16, 16, 8, 8, 32, 8 }; int mw = TJSCALED(mcuw[j.ss % 7], f);
    cr.x = mw * (crop % 3); if (cr.x >= sw) cr.x = 0;
    cr.y = (crop / 3) % (sh > 0 ? sh : 1); cr.w = (sw - cr.x) > 1 ? 1 + (crop * 7) % (sw - cr.x) : 0; cr.h = (sh - cr.y) > 1 ? 1 + (crop * 5) % (sh - cr.y) : 0;
  }
  for (run = 0; run < 2; run++) {
    tjhandle hd = tj3Init(TJINIT_DECOMPRESS); int ow = sw, oh = sh;
    tj3Set(hd, TJPARAM_BOTTOMUP, bu); tj3Set(hd, TJPARAM_FASTUPSAMPLE, fl & 1); tj3Set(hd, TJPARAM_FASTDCT, (fl >> 1) & 1);
    if (tj3DecompressHeader(hd, jp, jn) < 0) { printf("R err header\n"); tj3Destroy(hd); free(jp); c11_free(&g[0]); return 1; }
    tj3SetScalingFactor(hd, f);
    if ((fl & 4) && crop && prec == 8) {
      /* call history: the region is set while a scaling factor of 1/2 is in effect (left edge on an iMCU boundary of THAT scale), then the
         scaling factor is changed; whatever the library makes of it, only the documented extent of the region may be written */
      static const int mcuw2[7] = { 8, 16, 16, 8, 8, 32, 8 }; tjscalingfactor half = { 1, 2 }; int hw = TJSCALED(j.w, half), hh = TJSCALED(j.h, half), mw2 = TJSCALED(mcuw2[j.ss % 7], half);
      tjregion r2 = { mw2, 0, 0, 0 };
      if (mw2 < hw) {
        r2.w = 1 + (crop * 7) % (hw - mw2); r2.h = 1 + (crop * 5) % hh;
        tj3SetScalingFactor(hd, half);
        if (tj3SetCroppingRegion(hd, r2) == 0) { ow = r2.w; oh = r2.h; }
        tj3SetScalingFactor(hd, f);
      }
    } else
    if (crop && prec == 8 && tj3SetCroppingRegion(hd, cr) == 0) { ow = cr.w ? cr.w : sw - cr.x; oh = cr.h ? cr.h : sh - cr.y; }
    rowb = (size_t)ow * ps * ssz; pitch = rowb + (size_t)pad * ssz; doc = pitch * (size_t)(oh - 1) + rowb;
    if (getenv("C11_DEBUG")) fprintf(stderr, "DBG sw%d sh%d crop %d,%d,%d,%d ow%d oh%d pf%d f%d/%d jn%lu\n", sw, sh, cr.x, cr.y, cr.w, cr.h, ow, oh, pf, f.num, f.denom, jn);
    if (!c11_alloc(&g[run], doc, fe)) INTERNAL("mmap");
    memset(g[run].buf, fill[run], doc);
    if (prec <= 8) rc[run] = tj3Decompress8(hd, jp, jn, g[run].buf, (int)(pitch / ssz), pf);
    else if (prec <= 12) rc[run] = tj3Decompress12(hd, jp, jn, (short *)g[run].buf, (int)(pitch / ssz), pf);
    else rc[run] = tj3Decompress16(hd, jp, jn, (unsigned short *)g[run].buf, (int)(pitch / ssz), pf);
    tj3Destroy(hd);
  }
  if (rc[0] < 0 || rc[1] < 0) printf("R err decompress\n");
  else {
    /* the undefined X component of the RGBX formats may or may not be written: count it as written */
    if (ps == 4 && tjAlphaOffset[pf] < 0 && ssz == 1) {
      size_t y, x, oh2 = (doc - rowb) / pitch + 1; int xo = (pf == TJPF_RGBX || pf == TJPF_BGRX) ? 3 : 0;
      for (y = 0; y < oh2; y++) for (x = 0; x < rowb / 4; x++) { g[0].buf[y * pitch + x * 4 + xo] = 0; g[1].buf[y * pitch + x * 4 + xo] = 0; }
    }
    printf("R %zu %zu %zu %llu\n", rowb, pitch, doc, c11_maskdigest(g[0].buf, g[1].buf, fill[0], fill[1], doc, &nw));
  }
  c11_free(&g[0]); c11_free(&g[1]); free(jp);
  return 1;
}

/* g11c w h pf subsamp pitchpad flushend seed prec lossless : compress from a read-only guarded source buffer holding a sub-rectangle layout */
static int c11_g11c(toks_t *t)
{
  int w = (int)tl(t, 1), h = (int)tl(t, 2), pf = (int)tl(t, 3), ss = (int)tl(t, 4), pad = (int)tl(t, 5), fe = (int)tl(t, 6), prec = (int)tl(t, 8), ll = (int)tl(t, 9), ps = tjPixelSize[pf], x, y, rc;
  unsigned long long seed = (unsigned long long)tll(t, 7); size_t ssz = prec <= 8 ? 1 : 2, rowb = (size_t)w * ps * ssz, pitch = rowb + (size_t)pad * ssz, doc = pitch * (size_t)(h - 1) + rowb;
  c11_guard g; unsigned char *jp = NULL; size_t jn = 0; tjhandle hd = tj3Init(TJINIT_COMPRESS);
  if (!c11_alloc(&g, doc, fe)) INTERNAL("mmap");
  memset(g.buf, 0x3C, doc);
  for (y = 0; y < h; y++) for (x = 0; x < w * ps; x++) {
    int v = (int)(c03_mix(seed + (unsigned long long)y * 70001ULL + (unsigned long long)x) % (unsigned long long)(1 << prec));
    if (ssz == 1) g.buf[(size_t)y * pitch + x] = (unsigned char)v; else ((unsigned short *)(g.buf + (size_t)y * pitch))[x] = (unsigned short)v;
  }
  mprotect(g.map + (size_t)sysconf(_SC_PAGESIZE), g.maplen - 2 * (size_t)sysconf(_SC_PAGESIZE), PROT_READ);
  tj3Set(hd, TJPARAM_PRECISION, prec); tj3Set(hd, TJPARAM_QUALITY, 80);
  if (ll) tj3Set(hd, TJPARAM_LOSSLESS, 1); else tj3Set(hd, TJPARAM_SUBSAMP, pf == TJPF_GRAY ? TJSAMP_GRAY : ss);
  if (prec <= 8) rc = tj3Compress8(hd, g.buf, w, (int)(pitch / ssz), h, pf, &jp, &jn);
  else if (prec <= 12) rc = tj3Compress12(hd, (short *)g.buf, w, (int)(pitch / ssz), h, pf, &jp, &jn);
  else rc = tj3Compress16(hd, (unsigned short *)g.buf, w, (int)(pitch / ssz), h, pf, &jp, &jn);
  if (rc < 0) printf("R skip err %s\n", tj3GetErrorStr(hd)); else printf("R skip ok %zu\n", jn);
  printf("O ok\n");
  tj3Free(jp); tj3Destroy(hd); c11_free(&g);
  return 1;
}

/* g11y w h subsamp align flushend seed scale : planar YUV: encode from a guarded RGB buffer into guarded planes with strides, decode back,
   compress from the planes, decompress to planes: every plane is a separate guarded buffer of exactly tj3YUVPlaneSize() bytes */
static int c11_g11y(toks_t *t)
{
  int w = (int)tl(t, 1), h = (int)tl(t, 2), ss = (int)tl(t, 3), spad = (int)tl(t, 4), fe = (int)tl(t, 5), sfi = (int)tl(t, 7), i, np = ss == TJSAMP_GRAY ? 1 : 3, x, rc, nsf;
  unsigned long long seed = (unsigned long long)tll(t, 6); c11_guard rgb, pl[3], pl2[3], back; unsigned char *planes[3] = { 0 }, *planes2[3] = { 0 }; const unsigned char *cplanes[3]; int strides[3] = { 0 }, strides2[3] = { 0 };
  tjhandle hc = tj3Init(TJINIT_COMPRESS), hd = tj3Init(TJINIT_DECOMPRESS); unsigned char *jp = NULL; size_t jn = 0; const char *bad = NULL; tjscalingfactor *sf = tj3GetScalingFactors(&nsf), f = sf[sfi % nsf]; int sw, sh;
  memset(pl, 0, sizeof(pl)); memset(pl2, 0, sizeof(pl2)); memset(&back, 0, sizeof(back));
  if (!c11_alloc(&rgb, (size_t)w * h * 3, fe)) INTERNAL("mmap");
  for (x = 0; x < w * h * 3; x++) rgb.buf[x] = (unsigned char)(c03_mix(seed + (unsigned long long)x) % 256ULL);
  for (i = 0; i < np; i++) {
    int pw = tj3YUVPlaneWidth(i, w, ss); strides[i] = pw + spad;
    if (!c11_alloc(&pl[i], tj3YUVPlaneSize(i, w, strides[i], h, ss), fe)) INTERNAL("mmap");
    memset(pl[i].buf, 0xEE, pl[i].len); planes[i] = pl[i].buf;
  }
  tj3Set(hc, TJPARAM_SUBSAMP, ss); tj3Set(hc, TJPARAM_QUALITY, 85);
  {
    /* parameters of the entropy-coding stage, which colour conversion and downsampling do not involve, set on the instance (8th argument) */
    int inert = t->n > 8 ? (int)tl(t, 8) : 0;
    if (inert & 1) tj3Set(hc, TJPARAM_LOSSLESS, 1);
    if (inert & 2) tj3Set(hc, TJPARAM_PROGRESSIVE, 1);
    if (inert & 4) tj3Set(hc, TJPARAM_ARITHMETIC, 1);
    if (inert & 8) tj3Set(hc, TJPARAM_OPTIMIZE, 1);
    if (inert & 16) tj3Set(hc, TJPARAM_RESTARTROWS, 1);
    rc = tj3EncodeYUVPlanes8(hc, rgb.buf, w, 0, h, TJPF_RGB, planes, strides);
    if (inert & 1) tj3Set(hc, TJPARAM_LOSSLESS, 0);
    if (inert & 4) tj3Set(hc, TJPARAM_ARITHMETIC, 0);
  }
  if (rc < 0) { bad = "encodeyuv"; goto done; }
  /* padding columns of every plane row must be untouched */
  for (i = 0; i < np; i++) {
    int pw = tj3YUVPlaneWidth(i, w, ss), ph = tj3YUVPlaneHeight(i, h, ss), y;
    for (y = 0; y < ph - 1; y++) for (x = pw; x < strides[i]; x++) if (pl[i].buf[(size_t)y * strides[i] + x] != 0xEE) { bad = "tj3EncodeYUVPlanes8 wrote into the stride padding of a plane"; goto done; }
  }
  for (i = 0; i < np; i++) cplanes[i] = planes[i];
  if (!c11_alloc(&back, (size_t)w * h * 3, fe)) INTERNAL("mmap");
  tj3Set(hd, TJPARAM_SUBSAMP, ss);
  if (tj3DecodeYUVPlanes8(hd, cplanes, strides, back.buf, w, 0, h, TJPF_RGB) < 0) { bad = "decodeyuv"; goto done; }
  for (i = 0; i < np; i++) mprotect(pl[i].map + (size_t)sysconf(_SC_PAGESIZE), pl[i].maplen - 2 * (size_t)sysconf(_SC_PAGESIZE), PROT_READ);
  if (tj3CompressFromYUVPlanes8(hc, cplanes, w, strides, h, &jp, &jn) < 0) { bad = "compressfromyuv"; goto done; }
  tj3DecompressHeader(hd, jp, jn);
  tj3SetScalingFactor(hd, f);
  sw = TJSCALED(w, f); sh = TJSCALED(h, f);
  for (i = 0; i < np; i++) {
    int pw = tj3YUVPlaneWidth(i, sw, ss); strides2[i] = pw + spad;
    if (!c11_alloc(&pl2[i], tj3YUVPlaneSize(i, sw, strides2[i], sh, ss), fe)) INTERNAL("mmap");
    memset(pl2[i].buf, 0xEE, pl2[i].len); planes2[i] = pl2[i].buf;
  }
  if (tj3DecompressToYUVPlanes8(hd, jp, jn, planes2, strides2) < 0) { bad = "decompresstoyuv"; goto done; }
  for (i = 0; i < np; i++) {
    int pw = tj3YUVPlaneWidth(i, sw, ss), ph = tj3YUVPlaneHeight(i, sh, ss), y;
    for (y = 0; y < ph - 1; y++) for (x = pw; x < strides2[i]; x++) if (pl2[i].buf[(size_t)y * strides2[i] + x] != 0xEE) { bad = "tj3DecompressToYUVPlanes8 wrote into the stride padding of a plane"; goto done; }
  }
done:
  printf("R skip %s\n", bad ? bad : "ok");
  if (bad && strstr(bad, "wrote")) printf("O fail g11y: %s\n", bad); else printf("O ok\n");
  tj3Free(jp); tj3Destroy(hc); tj3Destroy(hd); c11_free(&rgb); c11_free(&back);
  for (i = 0; i < 3; i++) { c11_free(&pl[i]); c11_free(&pl2[i]); }
  return 1;
}


/* g11r ss w h cs off pad dither fancy cropx cropw seed : libjpeg API.  jpeg_read_scanlines() into rows that start `off` bytes into a canary
   field (so that rows are misaligned for 16-/32-bit stores) and are `pad` bytes apart: RGB565 (cs 16, 2 bytes per pixel) and the extended
   RGB colourspaces, every dither mode, merged and separate upsampling, with a horizontal crop.  Every byte outside the documented row
   extents (output_width x bytes per pixel) must keep its canary value. */
static int c11_g11r(toks_t *t)
{
  int ss = (int)tl(t, 1), w = (int)tl(t, 2), h = (int)tl(t, 3), cs = (int)tl(t, 4), off = (int)tl(t, 5), pad = (int)tl(t, 6), dither = (int)tl(t, 7), fancy = (int)tl(t, 8), cropx = (int)tl(t, 9), cropw = (int)tl(t, 10), x, y;
  unsigned long long seed = (unsigned long long)tll(t, 11); unsigned char *rgb = (unsigned char *)malloc((size_t)w * h * 3), *jb = NULL, *field = NULL; size_t js = 0, fl = 0, rowb, pitch, i; const char *bad = NULL; static char msg[200];
  tjhandle hc = tj3Init(TJINIT_COMPRESS); struct jpeg_decompress_struct d; my_err_t e;
  for (i = 0; i < (size_t)w * h * 3; i++) rgb[i] = (unsigned char)(c03_mix(seed + i) % 256ULL);
  tj3Set(hc, TJPARAM_SUBSAMP, ss); tj3Set(hc, TJPARAM_QUALITY, 90);
  if (tj3Compress8(hc, rgb, w, 0, h, TJPF_RGB, &jb, &js) < 0) { printf("R skip compress\n"); printf("O ok\n"); free(rgb); tj3Destroy(hc); return 1; }
  d.err = my_err_init(&e);
  jpeg_create_decompress(&d);
  if (setjmp(e.jb)) { printf("R skip err %d\n", e.code); printf("O fail g11r: libjpeg error %d decoding a file written by the library\n", e.code); jpeg_destroy_decompress(&d); free(field); free(rgb); tj3Free(jb); tj3Destroy(hc); return 1; }
  jpeg_mem_src(&d, jb, (unsigned long)js);
  jpeg_read_header(&d, TRUE);
  d.out_color_space = (J_COLOR_SPACE)cs; d.dither_mode = (J_DITHER_MODE)dither; d.do_fancy_upsampling = fancy;
  jpeg_start_decompress(&d);
  if (cropw > 0) { JDIMENSION xo = (JDIMENSION)(cropx % (int)d.output_width), cw = (JDIMENSION)cropw; if (xo + cw > d.output_width) cw = d.output_width - xo; jpeg_crop_scanline(&d, &xo, &cw); }
  rowb = (size_t)d.output_width * (cs == JCS_RGB565 ? 2 : (size_t)d.output_components);
  pitch = rowb + (size_t)pad;
  fl = (size_t)off + pitch * d.output_height + 64;
  field = (unsigned char *)malloc(fl); memset(field, 0xEE, fl);
  while (d.output_scanline < d.output_height) { JSAMPROW rp = field + off + (size_t)d.output_scanline * pitch; if (jpeg_read_scanlines(&d, &rp, 1) != 1) break; }
  for (i = 0; i < fl && !bad; i++) {
    int inside = 0;
    if (i >= (size_t)off) { size_t r = (i - off) / pitch, c = (i - off) % pitch; if (r < d.output_height && c < rowb) inside = 1; }
    if (!inside && field[i] != 0xEE) {
      long r = i >= (size_t)off ? (long)((i - off) / pitch) : -1; long c = i >= (size_t)off ? (long)((i - off) % pitch) : (long)i - off;
      snprintf(msg, sizeof(msg), "byte %ld of row %ld (row size %zu, rows start %d bytes into the buffer) was written by jpeg_read_scanlines (colourspace %d, dither %d, fancy %d, width %u)", c, r, rowb, off, cs, dither, fancy, d.output_width);
      bad = msg;
    }
  }
  (void)x; (void)y;
  jpeg_abort_decompress(&d);
  jpeg_destroy_decompress(&d);
  printf("R skip ok\n");
  if (bad) printf("O fail g11r: %s\n", bad); else printf("O ok\n");
  free(field); free(rgb); tj3Free(jb); tj3Destroy(hc);
  return 1;
}

static int dispatch_c11(toks_t *t)
{
  if (!strcmp(t->tok[0], "g11r") && t->n >= 12) return c11_g11r(t);
  if (!strcmp(t->tok[0], "g11d") && t->n >= 12) return c11_g11d(t);
  if (!strcmp(t->tok[0], "g11c") && t->n >= 10) return c11_g11c(t);
  if (!strcmp(t->tok[0], "g11y") && t->n >= 8) return c11_g11y(t);
  return 0;
}
