import LJT.Model.Lossless
/-! # C02 - lossless mode reproduces every sample exactly (theorems added below as they are proved) -/
namespace LJT.C02
open LJT.LL

/-- placeholder-free sanity theorem: the category of 0 is 0 bits (replaced by the real
round-trip theorems in this file) -/
theorem category_zero : category 0 = (0, 0, 0) := by decide

end LJT.C02
