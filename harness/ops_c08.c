/* C08 operations: output dimensions, crop alignment, cropping-region validation
 * (model-compared) and read/skip/crop histories against a full decode (oracle) */
#include "exec_common.h"
#include "jdmaster.h"
#include "jdmerge.h"
#include "jdmainct.h"
#include "jdsample.h"

/* outdim <w> <h> : R: "ow:oh" = TJSCALED() for each of the 16 scaling factors
 * (jpeg_calc_output_dimensions itself is checked against the same formula in skiphist) */
static int op_outdim(toks_t *t)
{
  int w = (int)tl(t, 1), h = (int)tl(t, 2), nsf = 0, i;
  tjscalingfactor *sf = tj3GetScalingFactors(&nsf);
  printf("R");
  for (i = 0; i < nsf; i++) printf(" %d:%d", TJSCALED(w, sf[i]), TJSCALED(h, sf[i]));
  printf("\n");
  return 1;
}

/* tjcrop <jw> <jh> <ss> <sfidx> <x> <y> <w> <h> : tj3SetCroppingRegion accept/reject on a real header */
static int op_tjcrop(toks_t *t)
{
  int jw = (int)tl(t, 1), jh = (int)tl(t, 2), ss = (int)tl(t, 3), sfi = (int)tl(t, 4), nsf = 0, rc;
  tjregion r; tjscalingfactor *sf = tj3GetScalingFactors(&nsf);
  tjhandle hc = tj3Init(TJINIT_COMPRESS), hd = tj3Init(TJINIT_DECOMPRESS);
  unsigned char *img = (unsigned char *)calloc((size_t)jw * jh * 3, 1), *jb = NULL; size_t js = 0;
  r.x = (int)tl(t, 5); r.y = (int)tl(t, 6); r.w = (int)tl(t, 7); r.h = (int)tl(t, 8);
  tj3Set(hc, TJPARAM_SUBSAMP, ss); tj3Set(hc, TJPARAM_QUALITY, 50);
  if (tj3Compress8(hc, img, jw, 0, jh, TJPF_RGB, &jb, &js) < 0 || tj3DecompressHeader(hd, jb, js) < 0 ||
      tj3SetScalingFactor(hd, sf[sfi % nsf]) < 0) { printf("R skip setup\n"); goto done; }
  rc = tj3SetCroppingRegion(hd, r);
  printf("R %s\n", rc == 0 ? "accept" : "reject");
  {
    long long sw = ((long long)jw * sf[sfi % nsf].num + sf[sfi % nsf].denom - 1) / sf[sfi % nsf].denom;
    long long sh = ((long long)jh * sf[sfi % nsf].num + sf[sfi % nsf].denom - 1) / sf[sfi % nsf].denom;
    long long mw = ((long long)tjMCUWidth[ss] * sf[sfi % nsf].num + sf[sfi % nsf].denom - 1) / sf[sfi % nsf].denom;
    long long x = r.x, y = r.y, w = r.w, h = r.h; int exp;
    if (x == 0 && y == 0 && w == 0 && h == 0) exp = 1;
    else if (x < 0 || y < 0 || w < 0 || h < 0) exp = 0;
    else if (x % mw != 0) exp = 0;
    else {
      if (w == 0) w = sw - x;
      if (h == 0) h = sh - y;
      exp = !(w <= 0 || h <= 0 || x + w > sw || y + h > sh);
    }
    if (exp != (rc == 0)) printf("O fail tjcrop region %d,%d %dx%d on %lldx%lld: %s but the documented rule says %s\n", r.x, r.y, r.w, r.h, sw, sh, rc == 0 ? "accepted" : "rejected", exp ? "accept" : "reject");
    else printf("O ok\n");
  }
done:
  free(img); tj3Free(jb); tj3Destroy(hc); tj3Destroy(hd);
  return 1;
}

static unsigned c08_byte(unsigned long long seed, unsigned long long k)
{
  return (unsigned)((((seed + 1ULL) * (k + 17ULL) * 40503ULL) / 64ULL) & 0xFF);
}

/* skiphist <ss> <w> <h> <prog> <arith> <scale_num> <fancy> <dct> <cropx> <cropw> <seed> <calls: rN|sN ...>
 * scale = scale_num/8.  Oracle: every delivered row equals the same row/columns of a full decode with
 * the same settings (first/last column exempt when smooth upsampling is active), skip returns
 * min(n, rows left), crop window as documented. */
static int c08_quant = 0;                    /* quanthist: one-pass colour quantisation to this many colours, no dithering */
static int c08_smooth = 0, c08_cut = 1000;   /* smoothhist: block smoothing on, stream cut to c08_cut/1000 of its length */
static int op_skiphist(toks_t *t)
{
  int ss = (int)tl(t, 1), w = (int)tl(t, 2), h = (int)tl(t, 3), prog = (int)tl(t, 4), arith = (int)tl(t, 5);
  int snum = (int)tl(t, 6), fancy = (int)tl(t, 7), dct = (int)tl(t, 8), cropx = (int)tl(t, 9), cropw = (int)tl(t, 10);
  unsigned long long seed = (unsigned long long)tll(t, 11);
  int x, y, i, bad = 0, pass, merged_spare_skip = 0, oc = 3; char why[220] = "";
  unsigned char *rgb = (unsigned char *)malloc((size_t)w * h * 3), *jb = NULL; size_t js = 0;
  unsigned char *full = NULL; int fw = 0, fh = 0;
  tjhandle hc = tj3Init(TJINIT_COMPRESS);
  for (y = 0; y < h; y++) for (x = 0; x < w; x++) {
    unsigned r = c08_byte(seed, (unsigned long long)y * w + x);
    rgb[(y * w + x) * 3] = (unsigned char)((x * 9 + (r & 31)) & 255);
    rgb[(y * w + x) * 3 + 1] = (unsigned char)((y * 7 + ((r >> 3) & 31)) & 255);
    rgb[(y * w + x) * 3 + 2] = (unsigned char)(((x ^ y) * 5 + (r >> 5) * 9) & 255);
  }
  if (ss >= 10) {
    /* non-standard sampling factors: luma (ss/10) x (ss%10), chroma 1x1, through the libjpeg API */
    struct jpeg_compress_struct c; my_err_t ce; unsigned long ul = 0;
    c.err = my_err_init(&ce);
    jpeg_create_compress(&c);
    if (setjmp(ce.jb)) { printf("R skip compress %d\n", ce.code); jpeg_destroy_compress(&c); goto done; }
    jpeg_mem_dest(&c, &jb, &ul);
    c.image_width = w; c.image_height = h; c.input_components = 3; c.in_color_space = JCS_RGB;
    jpeg_set_defaults(&c); jpeg_set_quality(&c, 85, TRUE);
    if (ss >= 1000) {   /* 1000 + hY*100 + vY*10 + vC: luma hY x vY, chroma 1 x vC */
      c.comp_info[0].h_samp_factor = (ss / 100) % 10; c.comp_info[0].v_samp_factor = (ss / 10) % 10;
      c.comp_info[1].v_samp_factor = c.comp_info[2].v_samp_factor = ss % 10;
    } else {
    c.comp_info[0].h_samp_factor = ss / 10; c.comp_info[0].v_samp_factor = ss % 10;
    }
    if (prog) jpeg_simple_progression(&c);
    c.arith_code = arith;
    jpeg_start_compress(&c, TRUE);
    for (y = 0; y < h; y++) { JSAMPROW rp = rgb + (size_t)y * w * 3; jpeg_write_scanlines(&c, &rp, 1); }
    jpeg_finish_compress(&c); jpeg_destroy_compress(&c);
    js = ul;
  } else {
  tj3Set(hc, TJPARAM_SUBSAMP, ss); tj3Set(hc, TJPARAM_QUALITY, 85); tj3Set(hc, TJPARAM_PROGRESSIVE, prog); tj3Set(hc, TJPARAM_ARITHMETIC, arith);
  if (tj3Compress8(hc, rgb, w, 0, h, TJPF_RGB, &jb, &js) < 0) { printf("R skip compress\n"); goto done; }
  }
  if (c08_smooth) {   /* keep the headers and the first scan header; cut inside the entropy-coded data that follows */
    size_t sos = 0, q; for (q = 2; q + 1 < js; q++) if (jb[q] == 0xFF && jb[q + 1] == 0xDA) { sos = q; break; }
    if (sos) { size_t base = sos + 2 + ((size_t)jb[sos + 2] << 8 | jb[sos + 3]) + 1, keep = base + (size_t)((unsigned long long)(js - base) * (unsigned)c08_cut / 1000ULL); if (keep < js) js = keep; }
  }
  printf("R ok\n");
  for (pass = 0; pass < 2 && !bad; pass++) {      /* pass 0: full decode; pass 1: the history */
    struct jpeg_decompress_struct d; my_err_t e;
    d.err = my_err_init(&e);
    jpeg_create_decompress(&d);
    if (setjmp(e.jb)) {
      if (c08_smooth && pass == 0) { jpeg_destroy_decompress(&d); break; }   /* the cut fell inside a table definition: nothing to compare */
      bad = 1; snprintf(why, sizeof(why), "libjpeg error %d in %s", e.code, pass ? "history" : "full decode"); jpeg_destroy_decompress(&d); break;
    }
    jpeg_mem_src(&d, jb, (unsigned long)js);
    jpeg_read_header(&d, TRUE);
    d.scale_num = snum; d.scale_denom = 8;
    d.do_fancy_upsampling = fancy; d.dct_method = dct ? JDCT_IFAST : JDCT_ISLOW;
    d.do_block_smoothing = c08_smooth ? TRUE : FALSE;
    d.out_color_space = JCS_RGB;
    if (c08_quant) {   /* one-pass colour quantisation without dithering (dithering carries state from row to row by design) */
      d.quantize_colors = TRUE; d.two_pass_quantize = FALSE; d.dither_mode = JDITHER_NONE; d.desired_number_of_colors = c08_quant;
    }
    jpeg_start_decompress(&d);
    oc = d.output_components;
    if (pass == 0) {
      long ew = ((long)w * snum + 7) / 8, eh = ((long)h * snum + 7) / 8;
      fw = d.output_width; fh = d.output_height;
      if (fw != ew || fh != eh) { bad = 1; snprintf(why, sizeof(why), "output dimensions %dx%d, expected ceil(%dx%d * %d/8) = %ldx%ld", fw, fh, w, h, snum, ew, eh); }
      full = (unsigned char *)malloc((size_t)fw * fh * 3 + 3);
      while (d.output_scanline < d.output_height) { JSAMPROW rp = full + (size_t)d.output_scanline * fw * oc; jpeg_read_scanlines(&d, &rp, 1); }
      jpeg_finish_decompress(&d);
    } else {
      JDIMENSION xo = 0, cw = fw; int smooth_edge = 0, line = 0;
      unsigned char *row;
      if (cropw > 0) {
        JDIMENSION rx = (JDIMENSION)(cropx % fw), rw = (JDIMENSION)cropw;
        int align;
        if (rx + rw > (JDIMENSION)fw) rw = fw - rx;
        xo = rx; cw = rw;
        jpeg_crop_scanline(&d, &xo, &cw);
        align = d.min_DCT_scaled_size * (d.num_components == 1 ? 1 : d.max_h_samp_factor);
        if (rw != (JDIMENSION)fw) {
          if (xo != (rx / align) * align || cw != rw + rx - xo || d.output_width != cw) { bad = 1; snprintf(why, sizeof(why), "crop window: asked %u+%u got %u+%u (align %d)", rx, rw, xo, cw, align); }
          smooth_edge = fancy && d.max_h_samp_factor > 1;
        }
      }
      row = (unsigned char *)malloc((size_t)cw * 3 + 16);
      for (i = 12; i < t->n && !bad; i++) {
        int n = atoi(t->tok[i] + 1), k;
        if (d.output_scanline >= d.output_height) break;
        if (t->tok[i][0] == 's') {
          JDIMENSION before = d.output_scanline, left = d.output_height - before, got;
          /* known finding D16: merged 2:1 vertical upsampling holds the second row of a pair in
             its spare buffer; a skip that leaves the iMCU row while that row is pending */
          if (((my_master_ptr)d.master)->using_merged_upsample && d.max_v_samp_factor == 2 &&
              ((my_merged_upsample_ptr)d.upsample)->spare_full) {
            JDIMENSION lpi = d.min_DCT_scaled_size * d.max_v_samp_factor;
            JDIMENSION lleft = (lpi - (before % lpi)) % lpi;
            if ((JDIMENSION)n >= lleft && (JDIMENSION)n < left) merged_spare_skip = 1;
          }
          got = jpeg_skip_scanlines(&d, (JDIMENSION)n);
          if (got != ((JDIMENSION)n < left ? (JDIMENSION)n : left) || d.output_scanline != before + got) {
            bad = 1; snprintf(why, sizeof(why), "skip(%d) at line %u returned %u, scanline now %u (height %u)", n, before, got, d.output_scanline, d.output_height);
          }
        } else if (t->tok[i][0] == 'm') {
          /* one call asking for n lines into an n-row buffer */
          unsigned char *blk = (unsigned char *)malloc((size_t)n * cw * 3 + 16); JSAMPROW rps[64]; JDIMENSION got, q; int c0, c1, c;
          if (n > 64) n = 64;
          memset(blk, 0x7E, (size_t)n * cw * 3);
          for (k = 0; k < n; k++) rps[k] = blk + (size_t)k * cw * oc;
          line = d.output_scanline;
          got = jpeg_read_scanlines(&d, rps, (JDIMENSION)n);
          if (got > (JDIMENSION)n || d.output_scanline != (JDIMENSION)line + got || d.output_scanline > d.output_height) {
            bad = 1; snprintf(why, sizeof(why), "read(%d) at line %d returned %u, scanline now %u (height %u)", n, line, got, d.output_scanline, d.output_height);
          }
          c0 = smooth_edge ? 1 : 0; c1 = smooth_edge ? (int)cw - 1 : (int)cw;
          for (q = 0; q < got && !bad; q++) for (c = c0; c < c1; c++)
            if (memcmp(rps[q] + c * oc, full + ((size_t)(line + q) * fw + xo + c) * oc, oc)) {
              bad = 1; snprintf(why, sizeof(why), "line %d column %d (multi-row read, crop %u+%u) differs from the full decode after history prefix of %d calls", line + (int)q, c, xo, cw, i - 12);
              break;
            }
          free(blk);
        } else {
          for (k = 0; k < n && d.output_scanline < d.output_height && !bad; k++) {
            JSAMPROW rp = row; int c0, c1, c;
            line = d.output_scanline;
            memset(row, 0x7E, (size_t)cw * 3);
            if (jpeg_read_scanlines(&d, &rp, 1) != 1) { bad = 1; snprintf(why, sizeof(why), "read returned no line at %d", line); break; }
            c0 = smooth_edge ? 1 : 0; c1 = smooth_edge ? (int)cw - 1 : (int)cw;
            for (c = c0; c < c1; c++)
              if (memcmp(row + c * oc, full + ((size_t)line * fw + xo + c) * oc, oc)) {
                bad = 1; snprintf(why, sizeof(why), "line %d column %d (crop %u+%u) differs from the full decode after history prefix of %d calls", line, c, xo, cw, i - 12);
                break;
              }
          }
        }
      }
      free(row);
      jpeg_abort_decompress(&d);
    }
    jpeg_destroy_decompress(&d);
  }
  if (bad) printf("O fail skiphist %s%s\n", why, merged_spare_skip ? " [merged-spare-row-skip]" : ""); else printf("O ok\n");
done:
  free(rgb); free(full); tj3Free(jb); tj3Destroy(hc);
  return 1;
}


/* skipst <ss> <w> <h> <prog> <scale_num> <fancy> <ycc> <upm> <seed> <calls: mN|rN|sN ...>
 * The counters of the read/skip state machine after every call, for Model/SkipSM.lean:
 * R: "M v H | ret:output_scanline:output_iMCU_row:buffer_full:rowgroup_ctr:next_row_out:rows_to_go ..." read through the
 * repo's own private headers.  mN = one jpeg_read_scanlines() call for N rows (N may be 0), rN = N calls for one row,
 * sN = jpeg_skip_scanlines(N).  <upm> = the upsampler the generator expects (0 separate, 1 merged; with the merged one
 * spare_full is printed in place of next_row_out); configurations that need context rows or use the other upsampler answer "skip". */
static int op_skipst(toks_t *t)
{
  int ss = (int)tl(t, 1), w = (int)tl(t, 2), h = (int)tl(t, 3), prog = (int)tl(t, 4), snum = (int)tl(t, 5), fancy = (int)tl(t, 6), ycc = (int)tl(t, 7), upm = (int)tl(t, 8), merged;
  unsigned long long seed = (unsigned long long)tll(t, 9);
  int x, y, i; unsigned char *rgb = (unsigned char *)malloc((size_t)w * h * 3), *jb = NULL, *blk = NULL; size_t js = 0;
  tjhandle hc = tj3Init(TJINIT_COMPRESS);
  struct jpeg_decompress_struct d; my_err_t e; int created = 0;
  for (y = 0; y < h; y++) for (x = 0; x < w; x++) {
    unsigned r = c08_byte(seed, (unsigned long long)y * w + x);
    rgb[(y * w + x) * 3] = (unsigned char)((x * 9 + (r & 31)) & 255);
    rgb[(y * w + x) * 3 + 1] = (unsigned char)((y * 7 + ((r >> 3) & 31)) & 255);
    rgb[(y * w + x) * 3 + 2] = (unsigned char)(((x ^ y) * 5 + (r >> 5) * 9) & 255);
  }
  tj3Set(hc, TJPARAM_SUBSAMP, ss); tj3Set(hc, TJPARAM_QUALITY, 85); tj3Set(hc, TJPARAM_PROGRESSIVE, prog);
  if (tj3Compress8(hc, rgb, w, 0, h, TJPF_RGB, &jb, &js) < 0) { printf("R skip compress\n"); goto done; }
  d.err = my_err_init(&e);
  jpeg_create_decompress(&d); created = 1;
  if (setjmp(e.jb)) { printf("R err %d\n", e.code); goto done; }
  jpeg_mem_src(&d, jb, (unsigned long)js);
  jpeg_read_header(&d, TRUE);
  d.scale_num = snum; d.scale_denom = 8;
  d.do_fancy_upsampling = fancy;
  d.out_color_space = ycc ? d.jpeg_color_space : (d.jpeg_color_space == JCS_GRAYSCALE ? JCS_GRAYSCALE : JCS_RGB);
  jpeg_start_decompress(&d);
  merged = ((my_master_ptr)d.master)->using_merged_upsample ? 1 : d.upsample->need_context_rows ? 2 : 0;
  if (merged != upm) {
    printf("R skip %s\n", merged == 2 ? "context" : merged ? "merged" : "separate");
    goto done;
  }
  blk = (unsigned char *)malloc((size_t)64 * d.output_width * d.output_components + 16);
  {
    my_main_ptr mp = (my_main_ptr)d.main; my_upsample_ptr up = (my_upsample_ptr)d.upsample;
    char *out = (char *)malloc(64 + (size_t)t->n * 120); size_t o = 0;
    o += sprintf(out + o, "%s %d %d %u |", merged == 2 ? "context" : merged ? "merged" : "sep", d.min_DCT_scaled_size, d.max_v_samp_factor, d.output_height);
    for (i = 10; i < t->n; i++) {
      int n = atoi(t->tok[i] + 1), k; unsigned ret = 0; JSAMPROW rps[64];
      if (d.output_scanline >= d.output_height) break;
      if (n > 64) n = 64;
      for (k = 0; k < 64; k++) rps[k] = blk + (size_t)k * d.output_width * d.output_components;
      if (t->tok[i][0] == 's') ret = jpeg_skip_scanlines(&d, (JDIMENSION)n);
      else if (t->tok[i][0] == 'm') ret = jpeg_read_scanlines(&d, rps, (JDIMENSION)n);
      else for (k = 0; k < n && d.output_scanline < d.output_height; k++) ret += jpeg_read_scanlines(&d, rps, 1);
      if (merged == 2)
        o += sprintf(out + o, " %u:%u:%u:%d:%u:%d:%d:%u:%d:%u", ret, d.output_scanline, d.output_iMCU_row, mp->buffer_full ? 1 : 0,
                     mp->rowgroup_ctr, mp->context_state, mp->whichptr, mp->iMCU_row_ctr, up->next_row_out, up->rows_to_go);
      else if (merged) {
        my_merged_upsample_ptr mu = (my_merged_upsample_ptr)d.upsample;
        o += sprintf(out + o, " %u:%u:%u:%d:%u:%d:%u", ret, d.output_scanline, d.output_iMCU_row, mp->buffer_full ? 1 : 0,
                     mp->rowgroup_ctr, mu->spare_full ? 1 : 0, mu->rows_to_go);
      } else
      o += sprintf(out + o, " %u:%u:%u:%d:%u:%d:%u", ret, d.output_scanline, d.output_iMCU_row, mp->buffer_full ? 1 : 0,
                   mp->rowgroup_ctr, up->next_row_out, up->rows_to_go);
    }
    printf("R %s\n", out); free(out);
  }
  printf("O ok\n");
done:
  if (created) jpeg_destroy_decompress(&d);
  free(blk); free(rgb); tj3Free(jb); tj3Destroy(hc);
  return 1;
}

static int dispatch_c08(toks_t *t)
{
  const char *op = t->tok[0];
  if (!strcmp(op, "outdim")) return op_outdim(t);
  if (!strcmp(op, "tjcrop")) return op_tjcrop(t);
  if (!strcmp(op, "skiphist")) return op_skiphist(t);
  if (!strcmp(op, "skipst") && t->n >= 10) return op_skipst(t);
  if (!strcmp(op, "quanthist") && t->n >= 13) {
    /* quanthist <colours> <skiphist arguments> : the same histories with one-pass colour quantisation (jquant1.c behind the
       upsampler, output_components = 1) */
    toks_t u = *t; int i, r;
    c08_quant = (int)tl(t, 1);
    for (i = 1; i + 1 < t->n; i++) u.tok[i] = t->tok[i + 1];
    u.n = t->n - 1;
    r = op_skiphist(&u);
    c08_quant = 0;
    return r;
  }
  if (!strcmp(op, "smoothhist") && t->n >= 13) {
    /* smoothhist <cut permille> <skiphist arguments> : a progressive stream cut short, so that block smoothing (jdcoefct.c
       decompress_smooth_data) is what produces the pixels, then the same crop / read / skip history against the full decode */
    toks_t u = *t; int i, r;
    c08_cut = (int)tl(t, 1); c08_smooth = 1;
    for (i = 1; i + 1 < t->n; i++) u.tok[i] = t->tok[i + 1];
    u.n = t->n - 1;
    r = op_skiphist(&u);
    c08_smooth = 0; c08_cut = 1000;
    return r;
  }
  return 0;
}
