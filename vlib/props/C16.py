"""C16 - header parameters and embedded metadata round-trip."""
ID = "C16"
VARIANTS = ["san", "simd"]
RULE = ("iccw: ICC profiles at every boundary around multiples of 65519 and the 255-segment limit (16.7 MB in thorough) written "
        "by the real writer, segments compared byte-wise (length+hash) with the model and read back through both APIs; iccr: "
        "marker lists (permuted, interleaved with foreign markers, duplicated/missing/inconsistent/zero sequence numbers, corrupted "
        "signature) given to the real reader and to the model; msave: COM/APPn markers with lengths 0..65533 and save limits; ss: "
        "sampling-factor tuples -> subsampling level; hdr: parameter tuples through compress + header read (oracle on real code)")
TRUSTED = ["Model.ICC / Model.Header are hand models of jcicc.c, jdicc.c, jdmarker.c(save_marker), turbojpeg.c(getSubsamp)"]
ASSUMPTIONS = []

K = 65519


def classify(op, R):
    p = op.split(" ")
    if p[0] == "iccw":
        n = int(p[1])
        return "iccw:%s" % ("multiple" if n % K == 0 else "near" if min(n % K, K - n % K) < 3 else "other")
    if p[0] == "hdrw":
        return "hdrw:cs%s:l0_%s:l14_%s:%s" % (p[1], "none" if p[10] == "-1" else "0" if p[10] == "0" else "lt14" if int(p[10]) < 14 else "ge14",
                                              "none" if p[11] == "-1" else "0" if p[11] == "0" else "lt12" if int(p[11]) < 12 else "ge12", R.split(" ")[0])
    if p[0] == "hdrio":
        return "hdrio:" + R
    if p[0] == "iccr":
        return "iccr:" + R.split(" ")[0]
    if p[0] == "hdr":
        return "hdr:ll%s:prog%s:ari%s:%s" % (p[9], p[7], p[8], R.split(" ")[0])
    if p[0] == "xcopy":
        return "xcopy:" + "".join(p[-int(p[2 + 3 * int(p[1])]):])
    if p[0] == "ss":
        return "ss:" + R
    return p[0]


def iccr_op(rng):
    """a marker list derived from a correct k-segment profile, then mutated"""
    k = rng.choice([1, 1, 2, 3, 5, 9])
    items = []
    for i in range(k):
        plen = rng.choice([0, 1, 2, 10, 300]) if rng.random() < .8 else rng.randint(0, 3000)
        items.append([0xE2, 1, i + 1, k, plen, rng.randrange(1 << 20)])
    mut = rng.choice(["none", "none", "perm", "perm", "dup", "missing", "count", "zero", "foreign", "badid", "toolarge", "empty"])
    if mut == "perm":
        rng.shuffle(items)
    elif mut == "dup" and k > 1:
        items[rng.randrange(k)][2] = items[rng.randrange(k)][2]
    elif mut == "missing" and k > 1:
        items.pop(rng.randrange(k))
    elif mut == "count":
        items[rng.randrange(len(items))][3] = k + rng.choice([1, -1, 7])
    elif mut == "zero":
        items[rng.randrange(len(items))][2] = 0
    elif mut == "toolarge":
        items[rng.randrange(len(items))][2] = k + 1
    elif mut == "badid":
        items[rng.randrange(len(items))][1] = 0
    elif mut == "empty":
        for it in items:
            it[4] = 0
    if mut in ("foreign", "perm") or rng.random() < .3:
        for _ in range(rng.randint(1, 3)):
            items.insert(rng.randint(0, len(items)), [rng.choice([0xE1, 0xE2, 0xE3, 0xED]), 0, rng.randint(0, 9), rng.randint(0, 9), rng.randint(0, 40), rng.randrange(1 << 20)])
        if mut == "perm":
            rng.shuffle(items)
    return "iccr %d %s" % (len(items), " ".join(" ".join(map(str, it)) for it in items))


def gen_ops(rng, tier):
    ops = []
    big = tier == "thorough"
    lens = [1, 2, 13, 14, 15, 100, 65518, 65519, 65520, 65521, 2 * K - 1, 2 * K, 2 * K + 1, 3 * K, 5 * K + 7, 200000]
    if big:
        lens += [100 * K, 254 * K, 254 * K + 1, 255 * K - 1, 255 * K] + [rng.randint(1, 40 * K) for _ in range(10)]
    else:
        lens += [rng.randint(1, 4 * K) for _ in range(6)] + [7 * K]
    for n in lens:
        ops.append("iccw %d %d" % (n, rng.randrange(1 << 20)))
    ops.append("iccw 0 5")
    # the same header read through a suspending data source, with the input cut at every byte position: saved markers, ICC profile and
    # the JFIF fields must not depend on the cut
    for i in range(60 if big else 10):
        nm = rng.randint(0, 4)
        ms = []
        for _ in range(nm):
            ms += [rng.choice([0xFE, 0xE1, 0xE3, 0xED, 0xEE, 0xE0, 0xE2]), rng.choice([0, 1, 2, 5, 37, 300, rng.randint(0, 1500)])]
        ops.append("msusp %d %d %d %s" % (rng.randrange(1 << 30), rng.choice([0, 0, 1, 200, 1500]), nm, " ".join(map(str, ms))))
    for i in range(1500 if big else 300):
        ops.append(iccr_op(rng))
    # saved markers
    for i in range(600 if big else 120):
        k = rng.randint(1, 5)
        items = []
        for _ in range(k):
            code = rng.choice([0xFE, 0xE0, 0xE1, 0xE2, 0xE5, 0xED, 0xEE, 0xEF])
            ln = rng.choice([0, 1, 2, 5, 11, 12, 13, 14, 15, 100, 65532, 65533]) if rng.random() < .7 else rng.randint(0, 65533)
            if big is False and ln > 1000 and rng.random() < .7:
                ln = rng.randint(0, 300)
            limit = rng.choice([0, 1, 5, 11, 12, 13, 14, 15, 100, 65535, ln, max(ln - 1, 0), ln + 1])
            items.append((code, ln, rng.randrange(1 << 20), limit))
        ops.append("msave %d %s" % (k, " ".join("%d %d %d %d" % it for it in items)))
    # header fields under the save-length limits of an application that keeps APP0 / APP14 markers (libjpeg API)
    lims = [-1, 0, 1, 2, 5, 8, 11, 12, 13, 14, 15, 16, 100, 65535]
    for cs in (0, 1, 2, 3, 4):
        for l in lims:
            ops.append("jfifsave %d %d %d %d %d %d" % (cs, rng.choice([0, 1, 2]), rng.choice([2, 72, 300, 65535]), rng.choice([3, 96, 600, 65535]), l if cs <= 1 else rng.choice(lims), rng.choice(lims) if cs <= 1 else l))
    # header fields on the wire: the segments the compressor writes for a tuple of fields and what jpeg_read_header makes of them, under
    # APP0 / APP14 save limits; stage 2 (hdrio) checks both against the Lean marker writer / reader (Model.HeaderIO, round trips proved)
    for i in range(900 if big else 160):
        cs = rng.choice([0, 1, 1, 2, 3, 4])
        nc = 1 if cs == 0 else 4 if cs in (2, 3) else 3
        f = []
        for c in range(nc):
            f += [rng.choice([1, 1, 2, 2, 3, 4]), rng.choice([1, 1, 2, 2, 3, 4])] if rng.random() < .5 else [1, 1]
        lims = [-1, -1, 0, 1, 5, 11, 12, 13, 14, 15, 100, 65535]
        ops.append("hdrw %d %d %d %d %d %d %d %d %d %d %d %s" % (cs, rng.choice([0, 1, 2, 3, 255]), rng.choice([0, 1, 72, 300, 255, 256, 65535, rng.randrange(65536)]),
                                                                 rng.choice([0, 1, 96, 600, 257, 65535, rng.randrange(65536)]), rng.choice([1, 1, 1, 2]), rng.choice([0, 1, 2, 255]),
                                                                 rng.choice([1, 8, 17, 255, 256, 257, 1000, 65535]) if rng.random() < .3 else rng.randint(1, 64), rng.randint(1, 40),
                                                                 rng.choice([0, 0, 1, 255, 256, 65535, rng.randrange(65536)]), rng.choice(lims), rng.choice(lims), " ".join(map(str, f))))
    # sampling factors -> subsampling level
    std = {0: (1, 1), 1: (2, 1), 2: (2, 2), 4: (1, 2), 5: (4, 1), 6: (1, 4)}
    for s, (h, v) in std.items():
        ops.append("ss 3 3 %d %d 1 1 1 1" % (h, v))
        ops.append("ss 4 5 %d %d 1 1 1 1 %d %d" % (h, v, h, v))
        ops.append("ss 4 4 %d %d 1 1 1 1 %d %d" % (h, v, h, v))
    ops.append("ss 1 1 1 1"); ops.append("ss 1 1 2 2")
    for i in range(300 if big else 80):
        nc = rng.choice([3, 3, 4, 1])
        jcs = {1: 1, 3: rng.choice([3, 2]), 4: rng.choice([4, 5])}[nc]
        f = []
        for c in range(nc):
            f += [rng.choice([1, 1, 2, 2, 3, 4]), rng.choice([1, 1, 2, 2, 3, 4])]
        ops.append("ss %d %d %s" % (nc, jcs, " ".join(map(str, f))))
    # copy options on a reused transformer
    for i in range(400 if big else 80):
        nm = rng.randint(1, 6)
        ms = []
        for _ in range(nm):
            code = rng.choice([0xFE, 0xFE, 0xE1, 0xE2, 0xE2, 0xE5, 0xED, 0xEF])
            ms.append((code, rng.choice([0, 1, 3, 40, 300]), rng.randrange(1 << 20)))
        k = rng.randint(1, 5)
        opts = [rng.randrange(5) for _ in range(k)]
        ops.append("xcopy %d %s %d %s" % (nm, " ".join("%d %d %d" % m for m in ms), k, " ".join(map(str, opts))))
    # header parameters through TurboJPEG
    for i in range(600 if big else 150):
        ll = rng.random() < .35
        prec = rng.choice([8, 8, 12, 16, 2, 7, 10, 15]) if ll else rng.choice([8, 8, 12])
        pf = rng.choice([0, 1, 2, 7, 6, 11])      # RGB BGR RGBX RGBA GRAY CMYK
        cs = {6: 2, 11: rng.choice([3, 4])}.get(pf, rng.choice([0, 1, 2]))   # TJCS: RGB=0 YCbCr=1 GRAY=2 CMYK=3 YCCK=4
        if ll and cs in (1, 4):
            cs = 0 if cs == 1 else 3
        ss = rng.choice([0, 1, 2, 4, 5, 6])
        if cs in (0, 3):
            ss = 0 if rng.random() < .7 else ss
        prog = int(rng.random() < .3); arith = int(rng.random() < .25)
        psv = rng.randint(1, 7); pt = rng.randint(0, min(prec - 1, 15)) if ll else 0
        units = rng.choice([0, 1, 2]); xd = rng.choice([1, 72, 300, 65535]); yd = rng.choice([1, 72, 96, 65535])
        rstb = rng.choice([0, 0, 0, 1, 5]); rstr = rng.choice([0, 0, 1, 2])
        if ll and rstb:
            rstb = 0
        ops.append("hdr %d %d %d %d %d %d %d %d %d %d %d %d %d %d %d %d" % (
            rng.choice([1, 7, 8, 17, 33]), rng.choice([1, 8, 9, 20]), prec, pf, cs, ss, prog, arith, int(ll), psv, pt, xd, yd, units, rstb, rstr))
    return ops


def stage2(ops, model_lines, res_by_v):
    """what the real compressor wrote and the real decompressor read (hdrw) -> the Lean marker writer / reader (hdrio)"""
    out = []
    seen = set()
    for v in res_by_v:
        for i, op in enumerate(ops):
            if op.startswith("hdrw "):
                R = res_by_v[v][i][0]
                if R.startswith("skip W "):
                    o = "hdrio " + R[5:]
                    if o not in seen:
                        seen.add(o); out.append(o)
    return out, []


def search(ctx, failing_ops):
    from .. import common as C
    import random
    rng = random.Random("search/%s" % ctx["seed"])
    ops = list(failing_ops)
    # a disagreeing reader/writer op is re-examined through the end-to-end oracle (iccw, hdr)
    ops += [o for o in gen_ops(rng, "quick") if o.split(" ")[0] in ("iccw", "hdr", "jfifsave")]
    found = []
    for v, exe in ctx["exes"].items():
        res, _ = C.run_exec(exe, ops)
        for op, (R, O) in zip(ops, res):
            if O and O.startswith("fail"):
                found.append((v, op, R, O))
    return found


MANIFEST = {
    "text": ("Kernel-checked Lean theorems: ICC write/read round trip for every profile length 1..255x65519 bytes, for every order of "
             "the APP2 segments and any interleaving with foreign markers; segment count = ceil(len/65519); saved markers keep exactly "
             "the first min(limit,len) bytes; sampling factors map back to the subsampling level for all 7 levels (3- and 4-component). "
             "The model is tied to jpeg_write_icc_profile / jpeg_read_icc_profile / jpeg_save_markers / getSubsamp by exact comparison; "
             "the remaining header fields (dimensions, precision, colourspace, flags, PSV/Pt, density, restart) and TurboJPEG ICC "
             "get/set are decided by an oracle on the real library (partial); copy options of the transformer are covered under C06."),
    "design_ref": "DESIGN.md 6.16",
    "note": ("Trusted: Lean kernel; axioms propext, Quot.sound, Classical.choice; hand models of jcicc.c/jdicc.c/save_marker/getSubsamp "
             "(tied by correspondence); header-field round trip not proved (oracle on real code)."),
    "technique": "Lean 4 proof (induction over chunk lists, permutation invariance) + model/code correspondence",
}
