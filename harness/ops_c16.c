/* C16 operations: ICC profile write/read, saved markers, header parameters */
#include "exec_common.h"

/* deterministic content shared with the Lean driver */
static unsigned char gen_byte(unsigned long long seed, unsigned long long k)
{
  return (unsigned char)((((seed + 1ULL) * (k + 17ULL) * 40503ULL) / 64ULL) & 0xFF);
}

static void small_gray_compress_start(struct jpeg_compress_struct *c, unsigned char **out, unsigned long *outsize)
{
  jpeg_mem_dest(c, out, outsize);
  c->image_width = 8; c->image_height = 8; c->input_components = 1; c->in_color_space = JCS_GRAYSCALE;
  jpeg_set_defaults(c);
  jpeg_start_compress(c, TRUE);
}
static void small_gray_compress_finish(struct jpeg_compress_struct *c)
{
  unsigned char row[8] = { 0, 32, 64, 96, 128, 160, 192, 224 };
  JSAMPROW rp = row; int i;
  for (i = 0; i < 8; i++) jpeg_write_scanlines(c, &rp, 1);
  jpeg_finish_compress(c);
}

/* walk the marker segments of a JPEG up to SOS; call cb(code, payload, len) */
typedef void (*seg_cb)(int code, const unsigned char *p, size_t len, void *u);
static void walk_segments(const unsigned char *j, size_t n, seg_cb cb, void *u)
{
  size_t i = 2;
  while (i + 4 <= n && j[i] == 0xFF) {
    int code = j[i + 1]; size_t len = ((size_t)j[i + 2] << 8) | j[i + 3];
    if (code == 0xDA) break;
    if (i + 2 + len > n) break;
    cb(code, j + i + 4, len - 2, u);
    i += 2 + len;
  }
}

static void print_app2(int code, const unsigned char *p, size_t len, void *u)
{
  if (code == 0xE2) { printf(" %zu:%llu", len, fnv(p, len)); (*(int *)u)++; }
}
static void count_app2(int code, const unsigned char *p, size_t len, void *u)
{
  (void)p; (void)len;
  if (code == 0xE2) (*(int *)u)++;
}

/* iccw <len> <seed>: R n <len_i>:<fnv_i>...   O: read-back through both APIs */
static int op_iccw(toks_t *t)
{
  size_t len = (size_t)tll(t, 1), i; unsigned long long seed = (unsigned long long)tll(t, 2);
  unsigned char *prof = (unsigned char *)malloc(len + 1), *out = NULL; unsigned long outsize = 0;
  struct jpeg_compress_struct c; struct jpeg_decompress_struct d; my_err_t e, e2;
  int n = 0, bad = 0; char why[160] = "";
  for (i = 0; i < len; i++) prof[i] = gen_byte(seed, i);
  c.err = my_err_init(&e);
  jpeg_create_compress(&c);
  if (setjmp(e.jb)) {
    printf("R err %d\n", e.code);
    jpeg_destroy_compress(&c); free(prof); free(out);
    return 1;
  }
  small_gray_compress_start(&c, &out, &outsize);
  jpeg_write_icc_profile(&c, prof, (unsigned int)len);
  small_gray_compress_finish(&c);
  jpeg_destroy_compress(&c);
  walk_segments(out, outsize, count_app2, &n);
  printf("R %d", n); n = 0;
  walk_segments(out, outsize, print_app2, &n);
  printf("\n");
  /* read back with libjpeg */
  d.err = my_err_init(&e2);
  jpeg_create_decompress(&d);
  if (setjmp(e2.jb)) { bad = 1; snprintf(why, sizeof(why), "decoder error %d", e2.code); }
  else {
    JOCTET *got = NULL; unsigned int gl = 0;
    jpeg_mem_src(&d, out, outsize);
    jpeg_save_markers(&d, JPEG_APP0 + 2, 0xFFFF);
    jpeg_read_header(&d, TRUE);
    if (!jpeg_read_icc_profile(&d, &got, &gl)) { bad = 1; snprintf(why, sizeof(why), "jpeg_read_icc_profile returned FALSE"); }
    else if (gl != len || memcmp(got, prof, len)) { bad = 1; snprintf(why, sizeof(why), "profile read back differs (len %u vs %zu)", gl, len); }
    free(got);
  }
  jpeg_destroy_decompress(&d);
  /* TurboJPEG API */
  if (!bad) {
    tjhandle hc = tj3Init(TJINIT_COMPRESS), hd = tj3Init(TJINIT_DECOMPRESS);
    unsigned char img[64 * 3], *jb = NULL, *got = NULL; size_t js = 0, gl = 0;
    memset(img, 77, sizeof(img));
    tj3Set(hc, TJPARAM_SUBSAMP, TJSAMP_444); tj3Set(hc, TJPARAM_QUALITY, 80);
    if (tj3SetICCProfile(hc, prof, len) < 0 || tj3Compress8(hc, img, 8, 0, 8, TJPF_RGB, &jb, &js) < 0) {
      bad = 1; snprintf(why, sizeof(why), "TJ compress with ICC: %s", tj3GetErrorStr(hc));
    } else if (tj3DecompressHeader(hd, jb, js) < 0 || tj3GetICCProfile(hd, &got, &gl) < 0) {
      bad = 1; snprintf(why, sizeof(why), "TJ get ICC: %s", tj3GetErrorStr(hd));
    } else if (gl != len || memcmp(got, prof, len)) { bad = 1; snprintf(why, sizeof(why), "TJ profile differs (len %zu vs %zu)", gl, len); }
    tj3Free(jb); tj3Free(got); tj3Destroy(hc); tj3Destroy(hd);
  }
  if (bad) printf("O fail iccw %s\n", why); else printf("O ok\n");
  free(prof); free(out);
  return 1;
}

/* iccr <k> (<code> <idok> <seq> <cnt> <plen> <pseed>)*k
 * build a JPEG whose marker list is exactly this, read the profile.
 * R: ok <len>:<fnv> | none <has-icc>   (warnings are reported as their count) */
static int op_iccr(toks_t *t)
{
  int k = (int)tl(t, 1), i; size_t pos, total = 0, j;
  struct jpeg_compress_struct c; struct jpeg_decompress_struct d; my_err_t e, e2;
  unsigned char *base = NULL, *s; unsigned long bsize = 0;
  static const unsigned char magic[12] = { 0x49, 0x43, 0x43, 0x5F, 0x50, 0x52, 0x4F, 0x46, 0x49, 0x4C, 0x45, 0 };
  c.err = my_err_init(&e);
  jpeg_create_compress(&c);
  if (setjmp(e.jb)) { printf("R err %d\n", e.code); jpeg_destroy_compress(&c); free(base); return 1; }
  small_gray_compress_start(&c, &base, &bsize);
  small_gray_compress_finish(&c);
  jpeg_destroy_compress(&c);
  for (i = 0; i < k; i++) total += 4 + 14 + (size_t)tl(t, 2 + i * 6 + 4);
  s = (unsigned char *)malloc(bsize + total + 16);
  s[0] = 0xFF; s[1] = 0xD8; pos = 2;
  for (i = 0; i < k; i++) {
    int code = (int)tl(t, 2 + i * 6), idok = (int)tl(t, 3 + i * 6), seq = (int)tl(t, 4 + i * 6), cnt = (int)tl(t, 5 + i * 6);
    size_t plen = (size_t)tl(t, 6 + i * 6); unsigned long long ps = (unsigned long long)tll(t, 7 + i * 6);
    size_t seglen = 2 + 14 + plen;
    s[pos++] = 0xFF; s[pos++] = (unsigned char)code; s[pos++] = (unsigned char)(seglen >> 8); s[pos++] = (unsigned char)seglen;
    memcpy(s + pos, magic, 12); if (!idok) s[pos + 3] = 0x2D;
    pos += 12; s[pos++] = (unsigned char)seq; s[pos++] = (unsigned char)cnt;
    for (j = 0; j < plen; j++) s[pos++] = gen_byte(ps, j);
  }
  memcpy(s + pos, base + 2, bsize - 2); pos += bsize - 2;
  d.err = my_err_init(&e2);
  jpeg_create_decompress(&d);
  if (setjmp(e2.jb)) printf("R err %d\n", e2.code);
  else {
    JOCTET *got = NULL; unsigned int gl = 0; int m;
    jpeg_mem_src(&d, s, (unsigned long)pos);
    for (m = 0; m < 16; m++) jpeg_save_markers(&d, JPEG_APP0 + m, 0xFFFF);
    jpeg_read_header(&d, TRUE);
    if (jpeg_read_icc_profile(&d, &got, &gl)) printf("R ok %u:%llu\n", gl, fnv(got, gl));
    else printf("R none warn=%d\n", e2.nwarn);
    free(got);
  }
  jpeg_destroy_decompress(&d);
  free(s); free(base);
  return 1;
}

/* msave <k> (<code> <len> <seed> <limit>)*k : write the markers, read them back with the
 * given save limits.  R: list of code:data_length:original_length:fnv in stream order */
static int op_msave(toks_t *t)
{
  int k = (int)tl(t, 1), i;
  struct jpeg_compress_struct c; struct jpeg_decompress_struct d; my_err_t e, e2;
  unsigned char *out = NULL, *buf; unsigned long outsize = 0;
  c.err = my_err_init(&e);
  jpeg_create_compress(&c);
  if (setjmp(e.jb)) { printf("R err %d\n", e.code); jpeg_destroy_compress(&c); free(out); return 1; }
  jpeg_mem_dest(&c, &out, &outsize);
  c.image_width = 8; c.image_height = 8; c.input_components = 1; c.in_color_space = JCS_GRAYSCALE;
  jpeg_set_defaults(&c);
  c.write_JFIF_header = FALSE; c.write_Adobe_marker = FALSE;
  jpeg_start_compress(&c, TRUE);
  buf = (unsigned char *)malloc(70000);
  for (i = 0; i < k; i++) {
    int code = (int)tl(t, 2 + i * 4); size_t len = (size_t)tl(t, 3 + i * 4), j; unsigned long long sd = (unsigned long long)tll(t, 4 + i * 4);
    for (j = 0; j < len; j++) buf[j] = gen_byte(sd, j);
    jpeg_write_marker(&c, code, buf, (unsigned int)len);
  }
  free(buf);
  small_gray_compress_finish(&c);
  jpeg_destroy_compress(&c);
  d.err = my_err_init(&e2);
  jpeg_create_decompress(&d);
  if (setjmp(e2.jb)) printf("R err %d\n", e2.code);
  else {
    jpeg_saved_marker_ptr m;
    jpeg_mem_src(&d, out, outsize);
    for (i = 0; i < k; i++) jpeg_save_markers(&d, (int)tl(t, 2 + i * 4), (unsigned int)tl(t, 5 + i * 4));
    jpeg_read_header(&d, TRUE);
    printf("R ok");
    for (m = d.marker_list; m; m = m->next)
      printf(" %d:%u:%u:%llu", m->marker, m->data_length, m->original_length, fnv(m->data, m->data_length));
    printf("\n");
  }
  jpeg_destroy_decompress(&d);
  free(out);
  return 1;
}

/* ss <ncomp> <jcs> (<h> <v>)*ncomp : compress with these sampling factors, read TJPARAM_SUBSAMP */
static int op_ss(toks_t *t)
{
  int nc = (int)tl(t, 1), jcs = (int)tl(t, 2), i;
  struct jpeg_compress_struct c; my_err_t e;
  unsigned char *out = NULL; unsigned long outsize = 0;
  unsigned char row[32 * 4]; JSAMPROW rp = row;
  c.err = my_err_init(&e);
  jpeg_create_compress(&c);
  if (setjmp(e.jb)) { printf("R skip compressor-rejected %d\n", e.code); jpeg_destroy_compress(&c); free(out); return 1; }
  jpeg_mem_dest(&c, &out, &outsize);
  c.image_width = 32; c.image_height = 32; c.input_components = nc;
  c.in_color_space = nc == 1 ? JCS_GRAYSCALE : nc == 3 ? JCS_RGB : JCS_CMYK;
  jpeg_set_defaults(&c);
  jpeg_set_colorspace(&c, (J_COLOR_SPACE)jcs);
  for (i = 0; i < nc && i < c.num_components; i++) {
    c.comp_info[i].h_samp_factor = (int)tl(t, 3 + 2 * i);
    c.comp_info[i].v_samp_factor = (int)tl(t, 4 + 2 * i);
  }
  jpeg_start_compress(&c, TRUE);
  memset(row, 90, sizeof(row));
  for (i = 0; i < 32; i++) jpeg_write_scanlines(&c, &rp, 1);
  jpeg_finish_compress(&c);
  jpeg_destroy_compress(&c);
  {
    tjhandle hd = tj3Init(TJINIT_DECOMPRESS);
    if (tj3DecompressHeader(hd, out, outsize) < 0) printf("R hdrerr\n");
    else printf("R subsamp %d\n", tj3Get(hd, TJPARAM_SUBSAMP));
    tj3Destroy(hd);
  }
  free(out);
  return 1;
}

/* hdr <w> <h> <prec> <pf> <cs> <subsamp> <prog> <arith> <lossless> <psv> <pt> <xd> <yd> <units> <rst> <rstrows>
 * compress through TurboJPEG, read the header back, compare every reported parameter (oracle only) */
static int op_hdr(toks_t *t)
{
  int w = (int)tl(t, 1), h = (int)tl(t, 2), prec = (int)tl(t, 3), pf = (int)tl(t, 4), cs = (int)tl(t, 5), ss = (int)tl(t, 6);
  int prog = (int)tl(t, 7), arith = (int)tl(t, 8), ll = (int)tl(t, 9), psv = (int)tl(t, 10), pt = (int)tl(t, 11);
  int xd = (int)tl(t, 12), yd = (int)tl(t, 13), units = (int)tl(t, 14), rstb = (int)tl(t, 15), rstr = (int)tl(t, 16);
  tjhandle hc = tj3Init(TJINIT_COMPRESS), hd = tj3Init(TJINIT_DECOMPRESS);
  size_t n = (size_t)w * h * tjPixelSize[pf], i, js = 0; unsigned char *jb = NULL;
  unsigned short *s16 = (unsigned short *)malloc(n * 2 + 2); unsigned char *s8 = (unsigned char *)malloc(n + 1);
  int rc, bad = 0; char why[200] = "";
  for (i = 0; i < n; i++) { s16[i] = (unsigned short)((i * 37) & ((1u << prec) - 1)); s8[i] = (unsigned char)s16[i]; }
#define HSET(p, v) if (tj3Set(hc, p, v) < 0) { printf("R seterr %d\n", p); printf("O ok\n"); goto done; }
  HSET(TJPARAM_PRECISION, prec);
  HSET(TJPARAM_COLORSPACE, cs);
  if (ll) { HSET(TJPARAM_LOSSLESS, 1); HSET(TJPARAM_LOSSLESSPSV, psv); HSET(TJPARAM_LOSSLESSPT, pt); }
  else { HSET(TJPARAM_SUBSAMP, ss); HSET(TJPARAM_QUALITY, 85); HSET(TJPARAM_PROGRESSIVE, prog); }
  HSET(TJPARAM_ARITHMETIC, arith);
  HSET(TJPARAM_XDENSITY, xd); HSET(TJPARAM_YDENSITY, yd); HSET(TJPARAM_DENSITYUNITS, units);
  if (rstb) { HSET(TJPARAM_RESTARTBLOCKS, rstb); } else if (rstr) { HSET(TJPARAM_RESTARTROWS, rstr); }
  if (prec <= 8) rc = tj3Compress8(hc, s8, w, 0, h, pf, &jb, &js);
  else if (prec <= 12) rc = tj3Compress12(hc, (short *)s16, w, 0, h, pf, &jb, &js);
  else rc = tj3Compress16(hc, s16, w, 0, h, pf, &jb, &js);
  if (rc < 0) { printf("R comperr\n"); printf("O ok\n"); goto done; }
  printf("R ok\n");
  if (tj3DecompressHeader(hd, jb, js) < 0) { bad = 1; snprintf(why, sizeof(why), "header: %s", tj3GetErrorStr(hd)); }
  else {
#define CHK(p, v, name) if (!bad && tj3Get(hd, p) != (v)) { bad = 1; snprintf(why, sizeof(why), "%s reported %d, used %d", name, tj3Get(hd, p), (int)(v)); }
    int ecs = tj3Get(hc, TJPARAM_COLORSPACE);
    if (ll) {   /* documented: no colourspace conversion, progressive or arithmetic coding in lossless mode */
      ecs = pf == TJPF_GRAY ? TJCS_GRAY : pf == TJPF_CMYK ? TJCS_CMYK : TJCS_RGB;
      arith = 0; prog = 0;
    }
    CHK(TJPARAM_JPEGWIDTH, w, "width"); CHK(TJPARAM_JPEGHEIGHT, h, "height"); CHK(TJPARAM_PRECISION, prec, "precision");
    CHK(TJPARAM_COLORSPACE, ecs, "colorspace");
    CHK(TJPARAM_LOSSLESS, ll, "lossless");
    if (ll) { CHK(TJPARAM_LOSSLESSPSV, psv, "psv"); CHK(TJPARAM_LOSSLESSPT, pt, "pt"); CHK(TJPARAM_SUBSAMP, (ecs == TJCS_GRAY ? TJSAMP_GRAY : TJSAMP_444), "subsamp"); }
    else { CHK(TJPARAM_PROGRESSIVE, prog, "progressive"); CHK(TJPARAM_SUBSAMP, (ecs == TJCS_GRAY ? TJSAMP_GRAY : ss), "subsamp"); }
    CHK(TJPARAM_ARITHMETIC, arith, "arithmetic");
    if (ecs == TJCS_YCbCr || ecs == TJCS_GRAY) {   /* JFIF header carries the density */
      CHK(TJPARAM_XDENSITY, xd, "xdensity"); CHK(TJPARAM_YDENSITY, yd, "ydensity"); CHK(TJPARAM_DENSITYUNITS, units, "units");
    }
  }
  if (bad) printf("O fail hdr %s\n", why); else printf("O ok\n");
done:
  tj3Free(jb); free(s16); free(s8); tj3Destroy(hc); tj3Destroy(hd);
  return 1;
}

/* xcopy <nm> (<code> <len> <seed>)*nm <k> <opt>*k : k transforms with copy options on ONE
 * reused TurboJPEG transformer; R: the COM/APPn segments of each output (the encoder's own
 * JFIF APP0 excluded), transforms separated by "|" */
typedef struct { int first_jfif; int n; int code[64]; size_t len[64]; unsigned long long h[64]; } extra_t;
static void collect_extra(int code, const unsigned char *p, size_t len, void *u)
{
  extra_t *x = (extra_t *)u;
  if (code == 0xFE || (code >= 0xE0 && code <= 0xEF)) {
    if (code == 0xE0 && len >= 5 && !memcmp(p, "JFIF", 5) && !x->first_jfif) { x->first_jfif = 1; return; }
    printf(" %d:%zu:%llu", code, len, fnv(p, len));
    if (x->n < 64) { x->code[x->n] = code; x->len[x->n] = len; x->h[x->n] = fnv(p, len); x->n++; }
  }
}
static int documented_keep(int opt, int code)
{
  switch (opt) {
  case 0: return 0;
  case 1: return code == 0xFE;
  case 2: return 1;
  case 3: return code != 0xE2;
  default: return code == 0xE2;
  }
}
static int op_xcopy(toks_t *t)
{
  int nm = (int)tl(t, 1), i, k, at, bad = 0;
  struct jpeg_compress_struct c; my_err_t e;
  unsigned char *src = NULL, *buf; unsigned long srcsize = 0;
  int scode[64]; size_t slen[64]; unsigned long long sh[64];
  char why[160] = "";
  tjhandle h;
  c.err = my_err_init(&e);
  jpeg_create_compress(&c);
  if (setjmp(e.jb)) { printf("R err %d\n", e.code); jpeg_destroy_compress(&c); free(src); return 1; }
  jpeg_mem_dest(&c, &src, &srcsize);
  c.image_width = 16; c.image_height = 16; c.input_components = 1; c.in_color_space = JCS_GRAYSCALE;
  jpeg_set_defaults(&c);
  jpeg_start_compress(&c, TRUE);
  buf = (unsigned char *)malloc(70000);
  for (i = 0; i < nm && i < 64; i++) {
    int code = (int)tl(t, 2 + i * 3); size_t len = (size_t)tl(t, 3 + i * 3), j; unsigned long long sd = (unsigned long long)tll(t, 4 + i * 3);
    for (j = 0; j < len; j++) buf[j] = gen_byte(sd, j);
    jpeg_write_marker(&c, code, buf, (unsigned int)len);
    scode[i] = code; slen[i] = len; sh[i] = fnv(buf, len);
  }
  free(buf);
  { unsigned char row[16]; JSAMPROW rp = row; memset(row, 100, 16); for (i = 0; i < 16; i++) jpeg_write_scanlines(&c, &rp, 1); }
  jpeg_finish_compress(&c);
  jpeg_destroy_compress(&c);
  at = 2 + nm * 3; k = (int)tl(t, at);
  h = tj3Init(TJINIT_TRANSFORM);
  printf("R ok");
  for (i = 0; i < k; i++) {
    int opt = (int)tl(t, at + 1 + i), j, q = 0;
    unsigned char *dst = NULL; size_t dsize = 0; tjtransform xf; extra_t x;
    memset(&xf, 0, sizeof(xf)); xf.op = TJXOP_NONE;
    memset(&x, 0, sizeof(x));
    tj3Set(h, TJPARAM_SAVEMARKERS, opt);
    if (tj3Transform(h, src, srcsize, 1, &dst, &dsize, &xf) < 0) { printf(" xerr"); bad = 1; snprintf(why, sizeof(why), "transform %d failed: %s", i, tj3GetErrorStr(h)); }
    else {
      walk_segments(dst, dsize, collect_extra, &x);
      /* oracle: exactly the documented subset of the source markers, in source order */
      for (j = 0; j < nm && j < 64; j++) {
        if (!documented_keep(opt, scode[j])) continue;
        if (q >= x.n || x.code[q] != scode[j] || x.len[q] != slen[j] || x.h[q] != sh[j]) {
          if (!bad) snprintf(why, sizeof(why), "transform %d (copy option %d): source marker %d (0x%X) missing or altered in the output", i, opt, j, scode[j]);
          bad = 1; break;
        }
        q++;
      }
      if (!bad && q != x.n) { bad = 1; snprintf(why, sizeof(why), "transform %d (copy option %d): output carries a marker 0x%X the option does not select", i, opt, x.code[q]); }
    }
    printf(" |");
    tj3Free(dst);
  }
  printf("\n");
  if (bad) printf("O fail xcopy %s\n", why); else printf("O ok\n");
  tj3Destroy(h);
  free(src);
  return 1;
}


/* jfifsave <cs> <units> <xd> <yd> <L0> <L14> : libjpeg API.  A file written with a JFIF header carrying the given pixel density (cs 0 gray,
 * 1 YCbCr) or with an Adobe marker (cs 2 CMYK, 3 YCCK, 4 RGB) is read back by an application that saves APP0 / APP14 markers with the
 * length limits L0 / L14 (-1: does not ask for that marker): the header fields must be the ones written whatever the limits are. */
static int op_jfifsave(toks_t *t)
{
  int cs = (int)tl(t, 1), units = (int)tl(t, 2), xd = (int)tl(t, 3), yd = (int)tl(t, 4), l0 = (int)tl(t, 5), l14 = (int)tl(t, 6), y, nc = cs == 0 ? 1 : (cs == 2 || cs == 3) ? 4 : 3;
  struct jpeg_compress_struct c; struct jpeg_decompress_struct d; my_err_t e, e2; unsigned char *out = NULL; unsigned long outsize = 0; unsigned char row[8 * 4]; char why[200] = "";
  J_COLOR_SPACE jcs = cs == 0 ? JCS_GRAYSCALE : cs == 1 ? JCS_YCbCr : cs == 2 ? JCS_CMYK : cs == 3 ? JCS_YCCK : JCS_RGB;
  c.err = my_err_init(&e);
  jpeg_create_compress(&c);
  if (setjmp(e.jb)) { printf("R err %d\n", e.code); jpeg_destroy_compress(&c); free(out); return 1; }
  jpeg_mem_dest(&c, &out, &outsize);
  c.image_width = 8; c.image_height = 8; c.input_components = nc; c.in_color_space = cs == 0 ? JCS_GRAYSCALE : (cs == 2 || cs == 3) ? JCS_CMYK : JCS_RGB;
  jpeg_set_defaults(&c);
  jpeg_set_colorspace(&c, jcs);
  c.density_unit = (UINT8)units; c.X_density = (UINT16)xd; c.Y_density = (UINT16)yd;
  jpeg_start_compress(&c, TRUE);
  for (y = 0; y < 8; y++) { JSAMPROW rp = row; int x; for (x = 0; x < 8 * nc; x++) row[x] = (unsigned char)(x * 9 + y * 31); jpeg_write_scanlines(&c, &rp, 1); }
  jpeg_finish_compress(&c);
  jpeg_destroy_compress(&c);
  d.err = my_err_init(&e2);
  jpeg_create_decompress(&d);
  if (setjmp(e2.jb)) { printf("R err %d\n", e2.code); printf("O fail jfifsave: header of a file written by the library itself refused (error %d)\n", e2.code); }
  else {
    jpeg_mem_src(&d, out, outsize);
    if (l0 >= 0) jpeg_save_markers(&d, JPEG_APP0, (unsigned int)l0);
    if (l14 >= 0) jpeg_save_markers(&d, JPEG_APP0 + 14, (unsigned int)l14);
    jpeg_read_header(&d, TRUE);
    printf("R ok jfif%d adobe%d\n", d.saw_JFIF_marker, d.saw_Adobe_marker);
    if (cs <= 1) {
      if (!d.saw_JFIF_marker || d.density_unit != units || d.X_density != xd || d.Y_density != yd)
        snprintf(why, sizeof(why), "density written as unit %d %dx%d, header read with APP0 save limit %d reports JFIF %d unit %d %ux%u", units, xd, yd, l0, d.saw_JFIF_marker, d.density_unit, d.X_density, d.Y_density);
    } else {
      int wt = cs == 3 ? 2 : 0;
      if (!d.saw_Adobe_marker || d.Adobe_transform != wt) snprintf(why, sizeof(why), "Adobe marker written with transform %d, header read with APP14 save limit %d reports Adobe %d transform %d", wt, l14, d.saw_Adobe_marker, d.Adobe_transform);
    }
    if (!why[0] && d.jpeg_color_space != jcs) snprintf(why, sizeof(why), "colourspace written %d, reported %d (APP0 limit %d, APP14 limit %d)", (int)jcs, (int)d.jpeg_color_space, l0, l14);
    if (why[0]) printf("O fail jfifsave: %s\n", why); else printf("O ok\n");
  }
  jpeg_destroy_decompress(&d);
  free(out);
  return 1;
}

/* hdrw cs units xd yd major minor w h ri l0 l14 (hs vs)*nc : libjpeg API.  The header fields of the compression object, the APP0 / APP14
 * / SOFn / DRI segments it writes (hex), and the fields jpeg_read_header reports when APP0 / APP14 are saved with the limits l0 / l14
 * (-1 = not asked for).  Stage 2 (hdrio) hands all of it to the Lean model of the marker writer and reader. */
typedef struct { char app0[64], app14[64], sof[128], dri[16]; } hdrw_segs;
static void hdrw_hex(char *dst, size_t cap, const unsigned char *p, size_t n) { size_t i; dst[0] = 0; for (i = 0; i < n && 2 * i + 3 < cap; i++) sprintf(dst + 2 * i, "%02x", p[i]); }
static void hdrw_cb(int code, const unsigned char *p, size_t len, void *u)
{
  hdrw_segs *s = (hdrw_segs *)u; unsigned char tmp[80];
  if (code == 0xE0 && !s->app0[0]) hdrw_hex(s->app0, sizeof(s->app0), p, len);
  else if (code == 0xEE && !s->app14[0]) hdrw_hex(s->app14, sizeof(s->app14), p, len);
  else if (code >= 0xC0 && code <= 0xCF && code != 0xC4 && code != 0xC8 && code != 0xCC && !s->sof[0] && len + 2 < sizeof(tmp)) {
    tmp[0] = (unsigned char)((len + 2) >> 8); tmp[1] = (unsigned char)((len + 2) & 255); memcpy(tmp + 2, p, len); hdrw_hex(s->sof, sizeof(s->sof), tmp, len + 2);
  } else if (code == 0xDD && !s->dri[0] && len == 2) { tmp[0] = 0; tmp[1] = 4; memcpy(tmp + 2, p, 2); hdrw_hex(s->dri, sizeof(s->dri), tmp, 4); }
}
static int op_hdrw(toks_t *t)
{
  int cs = (int)tl(t, 1), units = (int)tl(t, 2), xd = (int)tl(t, 3), yd = (int)tl(t, 4), maj = (int)tl(t, 5), mnr = (int)tl(t, 6), w = (int)tl(t, 7), h = (int)tl(t, 8);
  int ri = (int)tl(t, 9), l0 = (int)tl(t, 10), l14 = (int)tl(t, 11), nc = cs == 0 ? 1 : (cs == 2 || cs == 3) ? 4 : 3, i, y;
  struct jpeg_compress_struct c; struct jpeg_decompress_struct d; my_err_t e, e2; unsigned char *out = NULL; unsigned long outsize = 0; JSAMPLE *row; hdrw_segs sg; char line[1200]; int pos = 0;
  J_COLOR_SPACE jcs = cs == 0 ? JCS_GRAYSCALE : cs == 1 ? JCS_YCbCr : cs == 2 ? JCS_CMYK : cs == 3 ? JCS_YCCK : JCS_RGB;
  memset(&sg, 0, sizeof(sg));
  c.err = my_err_init(&e);
  jpeg_create_compress(&c);
  if (setjmp(e.jb)) { printf("R err %d\n", e.code); jpeg_destroy_compress(&c); free(out); return 1; }
  jpeg_mem_dest(&c, &out, &outsize);
  c.image_width = (JDIMENSION)w; c.image_height = (JDIMENSION)h; c.input_components = nc; c.in_color_space = cs == 0 ? JCS_GRAYSCALE : (cs == 2 || cs == 3) ? JCS_CMYK : JCS_RGB;
  jpeg_set_defaults(&c);
  jpeg_set_colorspace(&c, jcs);
  c.density_unit = (UINT8)units; c.X_density = (UINT16)xd; c.Y_density = (UINT16)yd; c.JFIF_major_version = (UINT8)maj; c.JFIF_minor_version = (UINT8)mnr;
  c.restart_interval = (unsigned)ri;
  for (i = 0; i < nc; i++) { c.comp_info[i].h_samp_factor = (int)tl(t, 12 + 2 * i); c.comp_info[i].v_samp_factor = (int)tl(t, 13 + 2 * i); }
  jpeg_start_compress(&c, TRUE);
  pos += snprintf(line + pos, sizeof(line) - pos, "W %d %u %u %d", c.data_precision, c.image_height, c.image_width, c.num_components);
  for (i = 0; i < nc; i++) pos += snprintf(line + pos, sizeof(line) - pos, " %d %d %d %d", c.comp_info[i].component_id, c.comp_info[i].h_samp_factor, c.comp_info[i].v_samp_factor, c.comp_info[i].quant_tbl_no);
  pos += snprintf(line + pos, sizeof(line) - pos, " J %d %d %d %d %d %d A %d %d RI %u", c.write_JFIF_header, c.JFIF_major_version, c.JFIF_minor_version, c.density_unit, c.X_density, c.Y_density,
                  c.write_Adobe_marker, jcs == JCS_YCbCr ? 1 : jcs == JCS_YCCK ? 2 : 0, c.restart_interval);
  row = (JSAMPLE *)malloc((size_t)w * nc + 1);
  for (y = 0; y < h; y++) { JSAMPROW rp = row; int x; for (x = 0; x < w * nc; x++) row[x] = (JSAMPLE)(x * 9 + y * 31); jpeg_write_scanlines(&c, &rp, 1); }
  free(row);
  jpeg_finish_compress(&c);
  jpeg_destroy_compress(&c);
  walk_segments(out, outsize, hdrw_cb, &sg);
  pos += snprintf(line + pos, sizeof(line) - pos, " SEG %s %s %s %s", sg.app0[0] ? sg.app0 : "-", sg.app14[0] ? sg.app14 : "-", sg.sof[0] ? sg.sof : "-", sg.dri[0] ? sg.dri : "-");
  d.err = my_err_init(&e2);
  jpeg_create_decompress(&d);
  if (setjmp(e2.jb)) { printf("R err %d\n", e2.code); printf("O fail hdrw: header of a file written by the library itself refused (error %d)\n", e2.code); jpeg_destroy_decompress(&d); free(out); return 1; }
  jpeg_mem_src(&d, out, outsize);
  if (l0 >= 0) jpeg_save_markers(&d, JPEG_APP0, (unsigned int)l0);
  if (l14 >= 0) jpeg_save_markers(&d, JPEG_APP0 + 14, (unsigned int)l14);
  jpeg_read_header(&d, TRUE);
  pos += snprintf(line + pos, sizeof(line) - pos, " D %d %d %d %d %d %d %d %d %d %u %u %d", d.saw_JFIF_marker, d.JFIF_major_version, d.JFIF_minor_version, d.density_unit, d.X_density, d.Y_density,
                  d.saw_Adobe_marker, d.Adobe_transform, d.data_precision, d.image_height, d.image_width, d.num_components);
  for (i = 0; i < d.num_components; i++) pos += snprintf(line + pos, sizeof(line) - pos, " %d %d %d %d", d.comp_info[i].component_id, d.comp_info[i].h_samp_factor, d.comp_info[i].v_samp_factor, d.comp_info[i].quant_tbl_no);
  pos += snprintf(line + pos, sizeof(line) - pos, " %u L %d %d", d.restart_interval, l0, l14);
  printf("R skip %s\n", line);
  jpeg_destroy_decompress(&d);
  free(out);
  return 1;
}


static int dispatch_c16(toks_t *t)
{
  const char *op = t->tok[0];
  if (!strcmp(op, "hdrw") && t->n >= 14) return op_hdrw(t);
  if (!strcmp(op, "hdrio")) { printf("R ok\n"); return 1; }
  if (!strcmp(op, "jfifsave") && t->n >= 7) return op_jfifsave(t);
  if (!strcmp(op, "iccw")) return op_iccw(t);
  if (!strcmp(op, "iccr")) return op_iccr(t);
  if (!strcmp(op, "msave")) return op_msave(t);
  if (!strcmp(op, "ss")) return op_ss(t);
  if (!strcmp(op, "hdr")) return op_hdr(t);
  if (!strcmp(op, "xcopy")) return op_xcopy(t);
  return 0;
}
