import LJT.Proofs.PNM
/-! # C18 - image file loading is robust and save/load round-trips exactly

Property theorems about `LJT.PNM` (Model/PNM.lean), the model of `tj3LoadImage*` /
`tj3SaveImage*` for PPM/PGM files in the grayscale and RGB-family pixel formats.
`load` is a total function on byte strings: termination and the absence of out-of-bounds
reads of the *model* hold by construction; for the real code they are observed under
sanitizers.  BMP, GIF, Targa and the CMYK conversion are outside the model. -/
namespace LJT.Props.C18
open LJT.PNM

/-- **Every successful load is in range and within the limits**: for every byte string,
precision, requested pixel format, pixel limit and row order, all samples of the returned
image lie in `0 .. 2^P - 1` (`-1` marks the undefined X component of the RGBX formats), the
image is not empty, not larger than the format allows and not larger than the pixel limit. -/
theorem load_in_range_and_within_limit (P pf maxPixels : Nat) (bottomUp : Bool) (file : List Nat) (img : Image)
    (h : load P pf maxPixels bottomUp file = .ok img) :
    (∀ row ∈ img.rows, ∀ x ∈ row, -1 ≤ x ∧ x ≤ ((2 ^ P - 1 : Nat) : Int)) ∧
    (maxPixels ≠ 0 → img.w * img.h ≤ maxPixels) ∧ 1 ≤ img.w ∧ 1 ≤ img.h ∧ img.w ≤ 65535 ∧ img.h ≤ 65535 :=
  load_good P pf maxPixels bottomUp file img h

/-- `read_pbm_integer` never returns a value above the bound it was given (this is what keeps
the index into `rescale[]` inside the table) -/
theorem read_integer_bounded (m : Nat) (s : List Nat) (v : Nat) (r : List Nat) (h : readInt m s = .ok (v, r)) :
    v ≤ m := readInt_le m s v r h

/-- the rescale table: into range, monotone, end points fixed, identity at full scale -/
theorem rescale_table (P maxval : Nat) (hm : 1 ≤ maxval) :
    (∀ v ≤ maxval, rescale P maxval v ≤ 2 ^ P - 1) ∧
    (∀ a b, a ≤ b → rescale P maxval a ≤ rescale P maxval b) ∧
    rescale P maxval 0 = 0 ∧ rescale P maxval maxval = 2 ^ P - 1 ∧
    (maxval = 2 ^ P - 1 → ∀ v ≤ maxval, rescale P maxval v = v) :=
  ⟨fun v hv => rescale_le P maxval v hm hv, fun a b hab => rescale_mono P maxval a b hab,
   rescale_zero P maxval hm, rescale_max P maxval hm, fun hf v hv => rescale_id P maxval v hm hf hv⟩

/-- decimal printing followed by `read_pbm_integer` is the identity -/
theorem header_number_roundtrip (m n c : Nat) (rest : List Nat) (hn : n ≤ m) (hc : isDigit c = false) (hc2 : c ≠ 35) :
    readInt m (decDigits n ++ c :: rest) = .ok (n, rest) := readInt_decDigits m n c rest hn hc hc2

/-- the raw body of a file written row by row is read back as the same samples (one- and
two-byte samples) -/
theorem body_roundtrip (P maxval rs bits : Nat) (hm : 1 ≤ maxval) (hfull : maxval = 2 ^ P - 1)
    (hb : (bits = 8 ∧ maxval ≤ 255) ∨ (bits ≠ 8 ∧ 255 < maxval ∧ maxval ≤ 65535))
    (rows : List (List Nat)) (h : ∀ r ∈ rows, r.length = rs ∧ ∀ v ∈ r, v ≤ maxval) :
    readRaw P maxval rs (decide (maxval > 255)) rows.length ((rows.map (encRow bits)).flatten) = .ok rows.flatten :=
  readRaw_enc P maxval rs bits hm hfull hb rows h

/-- **Save then load is the identity** for grayscale images: every precision 2..16 (with the
8-bit sample type for 2..8 and the 12/16-bit types above), both row orders, every size
1..65535 and every image whose samples fit the precision. -/
theorem save_load_roundtrip_gray (P bits : Nat) (hP : 2 ≤ P ∧ P ≤ 16) (hbits : (bits = 8 ∧ P ≤ 8) ∨ (bits ≠ 8 ∧ 9 ≤ P))
    (bottomUp : Bool) (w h : Nat) (hw : 1 ≤ w ∧ w ≤ 65535) (hh : 1 ≤ h ∧ h ≤ 65535) (rows : List (List Nat))
    (hlen : rows.length = h) (hrows : ∀ r ∈ rows, r.length = w ∧ ∀ v ∈ r, v ≤ 2 ^ P - 1) :
    ∃ f, save P bits 6 bottomUp w h rows = some f ∧
      load P 6 0 bottomUp f = .ok ⟨w, h, 6, rows.map (List.map (fun (v : Nat) => (v : Int)))⟩ :=
  save_load_gray P bits hP hbits bottomUp w h hw hh rows hlen hrows

/-- non-vacuity and sanity on concrete files -/
example : load 8 12 0 false [80, 53, 10, 50, 32, 49, 10, 50, 53, 53, 10, 7, 200] = .ok ⟨2, 1, 6, [[7, 200]]⟩ := by rfl
example : load 3 6 0 false [80, 50, 32, 49, 32, 49, 32, 55, 32, 57] = .error .outofrange := by rfl
example : load 8 0 1 false [80, 54, 32, 50, 32, 49, 32, 50, 53, 53, 10, 1, 2, 3, 4, 5, 6] = .error .toobig := by rfl
example : save 8 8 6 false 2 1 [[7, 200]] = some [80, 53, 10, 50, 32, 49, 10, 50, 53, 53, 10, 7, 200] := by decide

end LJT.Props.C18
