/* C10 operations: colour conversion per pixel format (direct, through the YUV-plane
 * entry points) and cross-layout equality through compress/decompress */
#include "exec_common.h"

static unsigned c10_byte(unsigned long long seed, unsigned long long k)
{
  return (unsigned)((((seed + 1ULL) * (k + 17ULL) * 40503ULL) / 64ULL) & 0xFF);
}

/* cconv <pf> <n> <seed> : one row of n pixels -> Y U V (4:4:4)  R: y.. | u.. | v.. */
static int op_cconv(toks_t *t)
{
  int pf = (int)tl(t, 1), n = (int)tl(t, 2), i, ps = tjPixelSize[pf];
  unsigned long long seed = (unsigned long long)tll(t, 3);
  unsigned char *row = (unsigned char *)malloc((size_t)n * ps), *pl[3]; int st[3] = { 0, 0, 0 };
  tjhandle h = tj3Init(TJINIT_COMPRESS);
  for (i = 0; i < n * ps; i++) row[i] = (unsigned char)c10_byte(seed, i);
  for (i = 0; i < 3; i++) pl[i] = (unsigned char *)calloc(n + 8, 1);
  tj3Set(h, TJPARAM_SUBSAMP, TJSAMP_444);
  if (tj3EncodeYUVPlanes8(h, row, n, 0, 1, pf, pl, st) < 0) printf("R err %s\n", tj3GetErrorStr(h));
  else {
    int c;
    printf("R");
    for (c = 0; c < 3; c++) { for (i = 0; i < n; i++) printf(" %d", pl[c][i]); printf(" |"); }
    printf("\n");
  }
  for (i = 0; i < 3; i++) free(pl[i]);
  free(row); tj3Destroy(h);
  return 1;
}

/* dconv <pf> <n> <seed> : Y U V planes (4:4:4) -> one packed row */
static int op_dconv(toks_t *t)
{
  int pf = (int)tl(t, 1), n = (int)tl(t, 2), i, c, ps = tjPixelSize[pf];
  unsigned long long seed = (unsigned long long)tll(t, 3);
  unsigned char *row = (unsigned char *)malloc((size_t)n * ps + 8), *pl[3];
  tjhandle h = tj3Init(TJINIT_DECOMPRESS);
  memset(row, 0x33, (size_t)n * ps);
  for (c = 0; c < 3; c++) { pl[c] = (unsigned char *)malloc(n + 8); for (i = 0; i < n; i++) pl[c][i] = (unsigned char)c10_byte(seed + c * 7919ULL, i); }
  tj3Set(h, TJPARAM_SUBSAMP, TJSAMP_444);
  if (tj3DecodeYUVPlanes8(h, (const unsigned char * const *)pl, NULL, row, n, 0, 1, pf) < 0) printf("R err %s\n", tj3GetErrorStr(h));
  else { printf("R"); for (i = 0; i < n * ps; i++) printf(" %d", row[i]); printf("\n"); }
  for (c = 0; c < 3; c++) free(pl[c]);
  free(row); tj3Destroy(h);
  return 1;
}

/* pfeq <prec> <lossless> <subsamp> <w> <h> <seed> <fastups> <fastdct>: the same picture through every
 * RGB-family layout, pitch padding and row order (oracle on the real library) */
static int op_pfeq(toks_t *t)
{
  int P = (int)tl(t, 1), ll = (int)tl(t, 2), ss = (int)tl(t, 3), w = (int)tl(t, 4), h = (int)tl(t, 5);
  unsigned long long seed = (unsigned long long)tll(t, 6);
  int fu = (int)tl(t, 7), fd = (int)tl(t, 8);
  static const int pfs[10] = { TJPF_RGB, TJPF_BGR, TJPF_RGBX, TJPF_BGRX, TJPF_XBGR, TJPF_XRGB, TJPF_RGBA, TJPF_BGRA, TJPF_ABGR, TJPF_ARGB };
  unsigned maxv = (1u << P) - 1, amax = P <= 8 ? 255 : P <= 12 ? 4095 : 65535;
  unsigned short *pic = (unsigned short *)malloc((size_t)w * h * 3 * 2);
  unsigned char *ref = NULL; size_t refsize = 0; int i, k, x, y, bad = 0; char why[200] = "";
  unsigned short *refdec = NULL;
  for (i = 0; i < w * h * 3; i++) pic[i] = (unsigned short)((c10_byte(seed, i) * 257u + c10_byte(seed + 1, i)) & maxv);
  printf("R ok\n");
  for (k = 0; k < 10 && !bad; k++) {
    int pf = pfs[k], ps = tjPixelSize[pf], bu, padsel;
    for (bu = 0; bu < 2 && !bad; bu++) for (padsel = 0; padsel < 2 && !bad; padsel++) {
      int pad = padsel ? 5 : 0, pitch = w * ps + pad, rc;
      size_t n = (size_t)pitch * h;
      unsigned short *buf = (unsigned short *)malloc(n * 2 + 2);
      unsigned char *jb = NULL; size_t js = 0;
      tjhandle hc = tj3Init(TJINIT_COMPRESS);
      for (i = 0; i < (int)n; i++) buf[i] = (unsigned short)((c10_byte(seed + 99 + k, i) * 131u) & maxv);   /* junk everywhere */
      for (y = 0; y < h; y++) for (x = 0; x < w; x++) {
        int ry = bu ? h - 1 - y : y; unsigned short *px = buf + (size_t)ry * pitch + x * ps;
        px[tjRedOffset[pf]] = pic[(y * w + x) * 3]; px[tjGreenOffset[pf]] = pic[(y * w + x) * 3 + 1]; px[tjBlueOffset[pf]] = pic[(y * w + x) * 3 + 2];
      }
      tj3Set(hc, TJPARAM_PRECISION, P); tj3Set(hc, TJPARAM_BOTTOMUP, bu); tj3Set(hc, TJPARAM_FASTDCT, fd);
      if (ll) tj3Set(hc, TJPARAM_LOSSLESS, 1); else { tj3Set(hc, TJPARAM_SUBSAMP, ss); tj3Set(hc, TJPARAM_QUALITY, 90); }
      if (P <= 8) { unsigned char *b8 = (unsigned char *)malloc(n); for (i = 0; i < (int)n; i++) b8[i] = (unsigned char)buf[i]; rc = tj3Compress8(hc, b8, w, pitch, h, pf, &jb, &js); free(b8); }
      else if (P <= 12) rc = tj3Compress12(hc, (short *)buf, w, pitch, h, pf, &jb, &js);
      else rc = tj3Compress16(hc, buf, w, pitch, h, pf, &jb, &js);
      if (rc < 0) { bad = 1; snprintf(why, sizeof(why), "compress pf=%d: %s", pf, tj3GetErrorStr(hc)); }
      else if (!ref) { ref = jb; refsize = js; jb = NULL; }
      else if (js != refsize || memcmp(jb, ref, js)) { bad = 1; snprintf(why, sizeof(why), "JPEG from pf=%d bottomup=%d pad=%d differs from the JPEG from TJPF_RGB", pf, bu, pad); }
      tj3Free(jb); tj3Destroy(hc); free(buf);
    }
  }
  /* decompress to every layout */
  for (k = 0; k < 10 && !bad; k++) {
    int pf = pfs[k], ps = tjPixelSize[pf], bu = k & 1, pad = (k % 3) ? 3 : 0, pitch = w * ps + pad, rc;
    size_t n = (size_t)pitch * h;
    unsigned short *buf = (unsigned short *)malloc(n * 2 + 2);
    tjhandle hd = tj3Init(TJINIT_DECOMPRESS);
    for (i = 0; i < (int)n; i++) buf[i] = 0x1234 & maxv;
    tj3Set(hd, TJPARAM_BOTTOMUP, bu); tj3Set(hd, TJPARAM_FASTUPSAMPLE, fu); tj3Set(hd, TJPARAM_FASTDCT, fd);
    if (P <= 8) { unsigned char *b8 = (unsigned char *)malloc(n); memset(b8, 0x34, n); rc = tj3Decompress8(hd, ref, refsize, b8, pitch, pf); for (i = 0; i < (int)n; i++) buf[i] = b8[i]; free(b8); }
    else if (P <= 12) rc = tj3Decompress12(hd, ref, refsize, (short *)buf, pitch, pf);
    else rc = tj3Decompress16(hd, ref, refsize, buf, pitch, pf);
    if (rc < 0) { bad = 1; snprintf(why, sizeof(why), "decompress pf=%d: %s", pf, tj3GetErrorStr(hd)); }
    else {
      if (!refdec) {
        refdec = (unsigned short *)malloc((size_t)w * h * 3 * 2);
        for (y = 0; y < h; y++) for (x = 0; x < w; x++) {
          int ry = bu ? h - 1 - y : y; unsigned short *px = buf + (size_t)ry * pitch + x * ps;
          refdec[(y * w + x) * 3] = px[tjRedOffset[pf]]; refdec[(y * w + x) * 3 + 1] = px[tjGreenOffset[pf]]; refdec[(y * w + x) * 3 + 2] = px[tjBlueOffset[pf]];
        }
      }
      for (y = 0; y < h && !bad; y++) {
        int ry = bu ? h - 1 - y : y;
        for (x = 0; x < w && !bad; x++) {
          unsigned short *px = buf + (size_t)ry * pitch + x * ps;
          if (px[tjRedOffset[pf]] != refdec[(y * w + x) * 3] || px[tjGreenOffset[pf]] != refdec[(y * w + x) * 3 + 1] || px[tjBlueOffset[pf]] != refdec[(y * w + x) * 3 + 2]) {
            bad = 1; snprintf(why, sizeof(why), "decompress to pf=%d: pixel (%d,%d) differs from the TJPF_RGB decode", pf, x, y);
          }
          if (!bad && tjAlphaOffset[pf] >= 0 && px[tjAlphaOffset[pf]] != amax) { bad = 1; snprintf(why, sizeof(why), "pf=%d alpha at (%d,%d) is %u, not the maximum", pf, x, y, px[tjAlphaOffset[pf]]); }
        }
        for (x = w * ps; x < pitch && !bad; x++) if (buf[(size_t)ry * pitch + x] != (0x1234 & maxv) && !(P <= 8 && buf[(size_t)ry * pitch + x] == 0x34)) { bad = 1; snprintf(why, sizeof(why), "pf=%d row padding written", pf); }
      }
    }
    tj3Destroy(hd); free(buf);
  }
  /* cropped decode (odd top row, iMCU-aligned left edge, fast or fancy upsampling) into every layout */
  if (!bad && !ll && P <= 12 && w > 1 && h > 3) {
    int mcuw = tjMCUWidth[ss], cx = (w > mcuw + 2) ? mcuw : 0, cy = (seed & 1) ? 1 : 3, cw = w - cx, ch = h - cy;
    unsigned short *cref = NULL;
    for (k = 0; k < 10 && !bad; k++) {
      int pf = pfs[k], ps = tjPixelSize[pf], pitch = cw * ps, rc;
      size_t n = (size_t)pitch * ch;
      unsigned short *buf = (unsigned short *)malloc(n * 2 + 2);
      tjhandle hd = tj3Init(TJINIT_DECOMPRESS);
      tjregion reg; reg.x = cx; reg.y = cy; reg.w = cw; reg.h = ch;
      for (i = 0; i < (int)n; i++) buf[i] = 0x0A5A & maxv;
      tj3Set(hd, TJPARAM_FASTUPSAMPLE, fu); tj3Set(hd, TJPARAM_FASTDCT, fd);
      if (tj3DecompressHeader(hd, ref, refsize) < 0 || tj3SetCroppingRegion(hd, reg) < 0) { tj3Destroy(hd); free(buf); break; }
      if (P <= 8) { unsigned char *b8 = (unsigned char *)malloc(n); memset(b8, 0x5A, n); rc = tj3Decompress8(hd, ref, refsize, b8, pitch, pf); for (i = 0; i < (int)n; i++) buf[i] = b8[i]; free(b8); }
      else rc = tj3Decompress12(hd, ref, refsize, (short *)buf, pitch, pf);
      if (rc < 0) { bad = 1; snprintf(why, sizeof(why), "cropped decompress pf=%d: %s", pf, tj3GetErrorStr(hd)); }
      else {
        if (!cref) {
          cref = (unsigned short *)malloc((size_t)cw * ch * 3 * 2);
          for (y = 0; y < ch; y++) for (x = 0; x < cw; x++) {
            unsigned short *px = buf + (size_t)y * pitch + x * ps;
            cref[(y * cw + x) * 3] = px[tjRedOffset[pf]]; cref[(y * cw + x) * 3 + 1] = px[tjGreenOffset[pf]]; cref[(y * cw + x) * 3 + 2] = px[tjBlueOffset[pf]];
          }
        }
        for (y = 0; y < ch && !bad; y++) for (x = 0; x < cw && !bad; x++) {
          unsigned short *px = buf + (size_t)y * pitch + x * ps;
          if (px[tjRedOffset[pf]] != cref[(y * cw + x) * 3] || px[tjGreenOffset[pf]] != cref[(y * cw + x) * 3 + 1] || px[tjBlueOffset[pf]] != cref[(y * cw + x) * 3 + 2]) {
            bad = 1; snprintf(why, sizeof(why), "cropped decompress (region %d,%d %dx%d) to pf=%d: pixel (%d,%d) differs from the TJPF_RGB decode", cx, cy, cw, ch, pf, x, y);
          }
          if (!bad && tjAlphaOffset[pf] >= 0 && px[tjAlphaOffset[pf]] != amax) { bad = 1; snprintf(why, sizeof(why), "cropped pf=%d alpha at (%d,%d) is %u", pf, x, y, px[tjAlphaOffset[pf]]); }
        }
      }
      tj3Destroy(hd); free(buf);
    }
    free(cref);
  }
  if (bad) printf("O fail pfeq %s\n", why); else printf("O ok\n");
  tj3Free(ref); free(pic); free(refdec);
  return 1;
}


/* pfleg <subsamp> <w> <h> <seed> : the TurboJPEG 2.x entry points (tjCompress2 / tjDecompress2) on ONE compressor and ONE decompressor
 * handle, every call with another layout, pitch padding and row order (TJFLAG_BOTTOMUP given or not per call): the JPEG must be byte
 * identical each time and every decoded pixel must sit where the layout of *that* call puts it */
static int op_pfleg(toks_t *t)
{
  int ss = (int)tl(t, 1), w = (int)tl(t, 2), h = (int)tl(t, 3), i, k, x, y, bad = 0; unsigned long long seed = (unsigned long long)tll(t, 4), rs = seed * 2654435761ULL + 99;
  static const int pfs[7] = { TJPF_RGB, TJPF_BGR, TJPF_RGBX, TJPF_BGRX, TJPF_XBGR, TJPF_XRGB, TJPF_RGBA };
  unsigned char *pic = (unsigned char *)malloc((size_t)w * h * 3), *ref = NULL, *refdec = NULL; unsigned long refn = 0; char why[220] = "";
  tjhandle hc = tjInitCompress(), hd = tjInitDecompress();
  for (i = 0; i < w * h * 3; i++) pic[i] = (unsigned char)c10_byte(seed, i);
  printf("R ok\n");
  for (k = 0; k < 12 && !bad; k++) {
    int pf, bu, pad, ps, pitch; unsigned char *buf, *jp = NULL; unsigned long jn = 0;
    rs = rs * 6364136223846793005ULL + 1442695040888963407ULL; pf = pfs[(rs >> 33) % 7]; bu = (int)((rs >> 40) & 1); pad = (int)((rs >> 45) % 3) * 5;
    if (k == 0) { pf = TJPF_RGB; bu = 1; pad = 0; }          /* first call bottom-up, so that a later top-down call follows it */
    if (k == 1) { bu = 0; }
    ps = tjPixelSize[pf]; pitch = w * ps + pad;
    buf = (unsigned char *)malloc((size_t)pitch * h + 16); memset(buf, 0xA5, (size_t)pitch * h);
    for (y = 0; y < h; y++) for (x = 0; x < w; x++) {
      unsigned char *px = buf + (size_t)(bu ? h - 1 - y : y) * pitch + x * ps;
      px[tjRedOffset[pf]] = pic[(y * w + x) * 3]; px[tjGreenOffset[pf]] = pic[(y * w + x) * 3 + 1]; px[tjBlueOffset[pf]] = pic[(y * w + x) * 3 + 2];
    }
    if (tjCompress2(hc, buf, w, pitch, h, pf, &jp, &jn, ss, 90, bu ? TJFLAG_BOTTOMUP : 0) < 0) { bad = 1; snprintf(why, sizeof(why), "tjCompress2 call %d: %s", k, tjGetErrorStr2(hc)); }
    else if (k == 0) { ref = jp; refn = jn; jp = NULL; }
    else if (jn != refn || memcmp(jp, ref, jn)) { bad = 1; snprintf(why, sizeof(why), "tjCompress2 call %d (pf=%d bottomup=%d pad=%d, after %d calls on the same handle) gives another JPEG than the first call for the same picture", k, pf, bu, pad, k); }
    if (!bad) {
      memset(buf, 0x5A, (size_t)pitch * h);
      if (tjDecompress2(hd, ref, refn, buf, w, pitch, h, pf, bu ? TJFLAG_BOTTOMUP : 0) < 0) { bad = 1; snprintf(why, sizeof(why), "tjDecompress2 call %d: %s", k, tjGetErrorStr2(hd)); }
      else if (k == 0) {
        refdec = (unsigned char *)malloc((size_t)w * h * 3);
        for (y = 0; y < h; y++) for (x = 0; x < w; x++) { unsigned char *px = buf + (size_t)(bu ? h - 1 - y : y) * pitch + x * ps;
          refdec[(y * w + x) * 3] = px[tjRedOffset[pf]]; refdec[(y * w + x) * 3 + 1] = px[tjGreenOffset[pf]]; refdec[(y * w + x) * 3 + 2] = px[tjBlueOffset[pf]]; }
      } else for (y = 0; y < h && !bad; y++) for (x = 0; x < w && !bad; x++) {
        unsigned char *px = buf + (size_t)(bu ? h - 1 - y : y) * pitch + x * ps;
        if (px[tjRedOffset[pf]] != refdec[(y * w + x) * 3] || px[tjGreenOffset[pf]] != refdec[(y * w + x) * 3 + 1] || px[tjBlueOffset[pf]] != refdec[(y * w + x) * 3 + 2]) {
          bad = 1; snprintf(why, sizeof(why), "tjDecompress2 call %d (pf=%d bottomup=%d pad=%d, after %d calls on the same handle): pixel (%d,%d) is not where this call's layout puts it", k, pf, bu, pad, k, x, y); }
      }
    }
    tjFree(jp); free(buf);
  }
  if (bad) printf("O fail pfleg %s\n", why); else printf("O ok\n");
  tjFree(ref); free(refdec); free(pic); tjDestroy(hc); tjDestroy(hd);
  return 1;
}

static int dispatch_c10(toks_t *t)
{
  const char *op = t->tok[0];
  if (!strcmp(op, "cconv")) return op_cconv(t);
  if (!strcmp(op, "dconv")) return op_dconv(t);
  if (!strcmp(op, "pfeq")) return op_pfeq(t);
  if (!strcmp(op, "pfleg") && t->n >= 5) return op_pfleg(t);
  return 0;
}
