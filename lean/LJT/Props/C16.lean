import LJT.Proofs.ICC
import LJT.Model.Header
import LJT.Proofs.CopyOpt
/-!
# C16 - Header parameters and embedded metadata round-trip intact

Full statement: dimensions, precision, colourspace, subsampling level, progressive /
arithmetic / lossless flags, predictor and point transform, density and units reported by
header reading equal what was used to compress; an ICC profile of any length from 1 byte
to 255 segments and COM/APPn markers up to 65533 bytes are returned byte-identical and in
order; the transformer copies or drops extra markers exactly as the copy option says.

Proved here: the ICC clause at full strength (every length, every arrangement of the
segments among other markers), the saved-marker prefix rule, and the
sampling-factor -> subsampling-level map for all seven levels.  The remaining header fields
and the copy options are decided by the correspondence / oracle run on the real library
(`hdr`, `msave` ops) and are listed as partial in MANIFEST.json.
-/
namespace LJT.C16
open LJT.ICC LJT.Header LJT.Gen

/-- **ICC round trip, any length**: for every profile of 1 .. 255 x 65519 bytes, reading
the markers the writer emits returns exactly the profile. -/
theorem icc_roundtrip (p : List Nat) (h1 : 1 ≤ p.length) (h2 : p.length ≤ 255 * 65519) :
    readICC (writeICC p) = some p :=
  readICC_of_perm p h1 h2 (writeICC p) (by
    have : (writeICC p).filter isICC = writeICC p := by
      unfold writeICC; exact filter_mkMarkers _ _ _
    rw [this])

/-- **ICC round trip, order-insensitive, foreign markers ignored**: the APP2 segments may
appear in any order and be interleaved with arbitrary other saved markers (including APP2
markers that do not carry the ICC signature). -/
theorem icc_order_insensitive (p : List Nat) (h1 : 1 ≤ p.length) (h2 : p.length ≤ 255 * 65519)
    (ms : List (Nat × List Nat)) (hperm : (ms.filter isICC).Perm (writeICC p)) :
    readICC ms = some p :=
  readICC_of_perm p h1 h2 ms hperm

/-- the writer emits exactly `ceil(len / 65519)` segments, each within the marker size limit -/
theorem icc_segment_count (p : List Nat) :
    (writeICC p).length = (p.length + 65519 - 1) / 65519 := by
  have : ∀ n k (L : List (List Nat)), (mkMarkers n k L).length = L.length := by
    intro n k L; induction L generalizing k with
    | nil => rfl
    | cons c cs ih => simp [mkMarkers, ih]
  unfold writeICC
  rw [this, chunks_length _ _ (Nat.le_refl _)]
  rfl

/-- **Saved markers**: a marker saved with limit `l` keeps exactly the first
`min l length` bytes and reports the original length (APP0/APP14 keep at least the bytes
the library itself needs). -/
theorem marker_save_prefix (code limit : Nat) (data : List Nat) (d : List Nat) (orig : Nat)
    (h : saved code limit data = some (d, orig)) :
    d = data.take (saveLimit code limit) ∧ orig = data.length ∧ d.length = min (saveLimit code limit) data.length := by
  unfold saved at h
  simp only at h
  split at h
  · cases h
  · injection h with h
    obtain ⟨h1, h2⟩ := Prod.mk.inj h
    refine ⟨?_, h2.symm, ?_⟩
    · rw [← h1]
      by_cases hl : saveLimit code limit ≤ data.length
      · rw [Nat.min_eq_left hl]
      · rw [Nat.min_eq_right (by omega), List.take_of_length_le (Nat.le_refl _),
          List.take_of_length_le (by omega)]
    · rw [← h1]; simp

/-- **Subsampling level is recovered from the sampling factors** for every level and for
3-component as well as 4-component (CMYK/YCCK) images; grayscale reports TJSAMP_GRAY. -/
theorem subsamp_of_factors :
    (∀ s, s < TJ_NUMSAMP → s ≠ TJSAMP_GRAY →
      getSubsamp 3 JCS_YCbCr [(mw s, mh s), (1, 1), (1, 1)] = (s : Int) ∧
      getSubsamp 4 JCS_YCCK [(mw s, mh s), (1, 1), (1, 1), (mw s, mh s)] = (s : Int) ∧
      getSubsamp 4 JCS_CMYK [(mw s, mh s), (1, 1), (1, 1), (mw s, mh s)] = (s : Int)) ∧
    getSubsamp 1 JCS_GRAYSCALE [(1, 1)] = (TJSAMP_GRAY : Int) := by
  refine ⟨?_, by decide⟩
  intro s hs hg
  have : s = 0 ∨ s = 1 ∨ s = 2 ∨ s = 3 ∨ s = 4 ∨ s = 5 ∨ s = 6 := by
    simp [TJ_NUMSAMP] at hs; omega
  rcases this with rfl | rfl | rfl | rfl | rfl | rfl | rfl <;> first | (exact absurd rfl hg) | decide

open LJT.CopyOpt in
/-- **Copy options select exactly the documented subset, whatever the instance did
before**: on a source object whose marker-save settings were accumulated by any history of
earlier transforms, a transform with option `o` outputs exactly the source's COM/APPn
markers that the option documents, in source order, minus a JFIF/Adobe marker the encoder
already wrote itself. -/
theorem copy_option_spec (hist : List Opt) (o : Opt) (wj wa : Bool) (src : List (Nat × List Nat))
    (hsrc : ∀ m ∈ src, m.1 = CopyOpt.COM ∨ isAPPn m.1 = true) :
    transform (savedAfter hist) o wj wa src =
      src.filter (fun m => documented o m && !(wj && isJFIF m) && !(wa && isAdobe m)) :=
  transform_spec _ o wj wa src hsrc

-- non-vacuity: a 70000-byte profile needs two segments and meets the hypotheses
example : 1 ≤ 70000 ∧ 70000 ≤ 255 * 65519 ∧ numMarkers 70000 = 2 := by decide

end LJT.C16
