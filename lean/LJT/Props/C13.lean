import LJT.Proofs.Dest
import LJT.Proofs.Robust
/-!
# C13 - JPEG destination buffer contract: never overrun, sized results, worst-case size

Full statement: compression/transformation never write outside the destination buffer;
with reallocation disabled they succeed with `size ≤ capacity` or fail with a
buffer-too-small error; with reallocation enabled the returned pointer and size describe
exactly the complete JPEG whatever the initial capacity (null, one byte, exactly full,
reused); a buffer of the worst-case size (+ ICC) always suffices.

Proved here for the destination-manager state machine (`Model.Dest`), for every client
write sequence that follows the libjpeg output protocol.  The worst-case-size clause is
*not* a theorem: it is false on the unchanged tree (DESIGN section 7, D3; listed in
known_findings.json) and is decided by the oracle run on the real compressor.
-/
namespace LJT.C13
open LJT.Dest

/-- a client operation: byte-wise output or a direct block store -/
inductive Op | bytes (bs : List Nat) | block (bs : List Nat)

def step (s : State) : Op → Except Err State
  | .bytes bs => putBytes s bs
  | .block bs => putBlock s bs

def Op.payload : Op → List Nat
  | .bytes bs => bs
  | .block bs => bs

def run (s : State) (ops : List Op) : Except Err State := ops.foldlM step s

/-- **Never overruns / exact contents**: along every successful operation sequence the
manager invariant "stored bytes < believed capacity" holds, the buffer content is exactly
the concatenation of everything written, the reallocation flag is unchanged and the
capacity never shrinks.  (Every store lands at index `data.length < cap`.) -/
theorem dest_never_overruns_and_keeps_content (ops : List Op) :
    ∀ (s s' : State), Good s → run s ops = .ok s' →
      Good s' ∧ s'.data = s.data ++ (ops.map Op.payload).flatten ∧ s'.alloc = s.alloc ∧ s.cap ≤ s'.cap := by
  induction ops with
  | nil => intro s s' hi h; simp [run] at h; cases h; simp [hi]
  | cons op ops ih =>
    intro s s' hi h
    simp only [run, List.foldlM_cons] at h
    cases h1 : step s op with
    | error e => rw [h1] at h; cases h
    | ok s1 =>
      rw [h1] at h
      have hs : Good s1 ∧ s1.rdata = op.payload.reverse ++ s.rdata ∧ s1.alloc = s.alloc ∧ s.cap ≤ s1.cap := by
        cases op with
        | bytes bs => exact putBytes_ok bs s s1 hi h1
        | block bs => exact putBlock_ok s s1 bs hi h1
      obtain ⟨i1, d1, a1, c1⟩ := hs
      obtain ⟨i2, d2, a2, c2⟩ := ih s1 s' i1 h
      refine ⟨i2, ?_, ?_, ?_⟩
      · rw [d2]; unfold State.data; rw [d1]; simp
      · rw [a2, a1]
      · omega

/-- **Reported size and contents**: `term` reports exactly the bytes written. -/
theorem dest_reports_exact_size (s s' : State) (ops : List Op) (hi : Good s) (h0 : s.rdata = [])
    (h : run s ops = .ok s') :
    (term s').1 = ((ops.map Op.payload).flatten).length ∧ (term s').2.1 = (ops.map Op.payload).flatten := by
  obtain ⟨g, d, _, _⟩ := dest_never_overruns_and_keeps_content ops s s' hi h
  have hd : s.data = [] := by unfold State.data; rw [h0]; rfl
  rw [hd, List.nil_append] at d
  have hl : s'.rdata.length = s'.data.length := by unfold State.data; simp
  simp only [term]
  refine ⟨?_, d⟩
  rw [← d, ← hl]; unfold Good at g; omega

/-- **Reallocation disabled**: a successful run reports a size strictly below the supplied
capacity (so certainly `≤`), and the capacity never changes. -/
theorem noalloc_size_le_capacity (s s' : State) (ops : List Op) (hi : Good s) (ha : s.alloc = false)
    (h : run s ops = .ok s') : (term s').1 < s.cap ∧ s'.cap = s.cap ∧ s'.bufId = s.bufId := by
  have key : ∀ (ops : List Op) (s s' : State), s.alloc = false → run s ops = .ok s' →
      s'.cap = s.cap ∧ s'.bufId = s.bufId := by
    intro ops
    induction ops with
    | nil => intro s s' _ h; simp [run] at h; cases h; exact ⟨rfl, rfl⟩
    | cons op ops ih =>
      intro s s' ha h
      simp only [run, List.foldlM_cons] at h
      cases h1 : step s op with
      | error e => rw [h1] at h; cases h
      | ok s1 =>
        rw [h1] at h
        have hs1 : s1.cap = s.cap ∧ s1.bufId = s.bufId ∧ s1.alloc = false := by
          cases op with
          | bytes bs => exact putBytes_noalloc_ok bs s s1 ha h1
          | block bs => exact putBlock_noalloc_ok bs s s1 ha h1
        obtain ⟨c1, b1, a1⟩ := hs1
        obtain ⟨c2, b2⟩ := ih s1 s' a1 h
        exact ⟨by rw [c2, c1], by rw [b2, b1]⟩
  obtain ⟨c, b⟩ := key ops s s' ha h
  obtain ⟨i, _, _, _⟩ := dest_never_overruns_and_keeps_content ops s s' hi h
  refine ⟨?_, c, b⟩
  unfold Good at i hi; simp only [term]; omega

/-- **Reallocation disabled, byte-wise output: error exactly on overflow.** -/
theorem noalloc_error_iff_overflow (s : State) (bs : List Nat) (hi : Good s) (ha : s.alloc = false) :
    (∃ s', putBytes s bs = .ok s') ↔ bs.length < s.free :=
  putBytes_noalloc bs s hi ha

/-- **Reallocation enabled: output never fails**, whatever the initial capacity. -/
theorem alloc_never_fails (s : State) (bs : List Nat) (hi : Good s) (ha : s.alloc = true) :
    ∃ s', putBytes s bs = .ok s' := putBytes_alloc bs s hi ha

/-- **Initial capacities**: whatever the caller passes (NULL, size 0, one byte, any
size, the previous buffer), `start` either fails with the buffer-size error (only when
reallocation is disabled and nothing usable was supplied) or establishes the invariant. -/
theorem start_establishes_invariant (kind : Kind) (alloc : Bool) (ob : OutBuf) (prev : Option State)
    (hprev : ∀ p, prev = some p → 0 < p.cap) (s : State) (h : start kind alloc ob prev = .ok s) :
    Good s ∧ s.rdata = [] := by
  have fresh : ∀ a n, (if a = true then (Except.ok ⟨kind, a, n + 1, OUTPUT_BUF_SIZE, OUTPUT_BUF_SIZE, [], n + 1, some (n + 1), []⟩ : Except Err State)
      else .error .bufferSize) = .ok s → Good s ∧ s.rdata = [] := by
    intro a n h
    split at h
    · injection h with h; subst h; simp [Good, OUTPUT_BUF_SIZE]
    · cases h
  cases ob with
  | null => simp only [start] at h; exact fresh _ _ h
  | own d =>
    by_cases hd : d = 0
    · subst hd; simp only [start] at h; exact fresh _ _ h
    · have : (d == 0) = false := by simp [hd]
      cases prev <;> (simp only [start, this] at h; injection h with h; subst h; simp [Good]; omega)
  | reuse d =>
    by_cases hd : d = 0
    · subst hd
      cases prev with
      | none => simp only [start, beq_self_eq_true, Bool.not_false, Bool.and_self, if_true] at h; exact fresh _ _ h
      | some p =>
        have hp := hprev p rfl
        cases kind with
        | std =>
          have e : (Kind.std == Kind.tj) = false := rfl
          simp only [start, e, beq_self_eq_true, Bool.false_and, Bool.not_false, Bool.and_self, if_true] at h
          exact fresh true _ (by rw [if_pos rfl]; exact h)
        | tj =>
          cases alloc with
          | false =>
            simp only [start, beq_self_eq_true, Bool.and_false, Bool.not_false, Bool.and_self, if_true] at h
            exact fresh _ _ h
          | true =>
            -- the recognised buffer keeps its capacity; the size 0 handed back with it is ignored (repair of D41)
            simp only [start, beq_self_eq_true, Bool.and_self, Bool.not_true, Bool.and_false, Bool.false_eq_true, if_false] at h
            injection h with h; subst h
            simp only [Good, List.length_nil, and_true]
            simp; omega
    · have : (d == 0) = false := by simp [hd]
      cases prev with
      | none => simp only [start, this, Bool.false_and] at h; injection h with h; subst h; simp [Good]; omega
      | some p =>
        simp only [start, this, Bool.false_and] at h
        injection h with h; subst h
        simp only [Good, List.length_nil, and_true]
        have hp := hprev p rfl
        clear fresh
        cases kind <;> cases alloc <;> simp <;> omega

/-- **Reuse keeps the true capacity** (TurboJPEG manager, reallocation enabled): handing
back the buffer of the previous call, whose `*outsize` now holds the previous JPEG size,
does not shrink the capacity to that size. -/
theorem reuse_keeps_capacity (p : State) (d : Nat) (hd : d ≠ 0) :
    start .tj true (.reuse d) (some p) =
      .ok ⟨.tj, true, p.bufId, p.cap, p.cap, [], p.nalloc, (if p.lib == some p.bufId then p.lib else none), []⟩ := by
  unfold start
  have : (d == 0) = false := by simp [hd]
  simp [this]

/-- **The size handed back with a reused buffer is ignored, whatever it is** (also 0: the repair of D41): the
TurboJPEG manager with reallocation enabled keeps the buffer and the capacity it remembers. -/
theorem reuse_ignores_declared_size (p : State) (d : Nat) :
    start .tj true (.reuse d) (some p) =
      .ok ⟨.tj, true, p.bufId, p.cap, p.cap, [], p.nalloc, (if p.lib == some p.bufId then p.lib else none), []⟩ := by
  unfold start
  simp


/-- **Never frees a buffer the caller owns**: during one image, every buffer the manager
passes to `free()` was allocated by the manager during this same image, or is the buffer
the caller handed back for reuse.  In particular a buffer returned by an earlier call and
kept by the caller (id ≤ allocations before this image, not handed back) is never freed.
(This failed before the repair of D11: the TurboJPEG manager kept `newbuffer` across
images.) -/
theorem never_frees_callers_buffer (kind : Kind) (alloc : Bool) (ob : OutBuf) (prev : Option State)
    (s s' : State) (ops : List Op) (hs : start kind alloc ob prev = .ok s) (h : run s ops = .ok s') :
    ∀ id, id ∈ s'.frees → allocBefore prev < id ∨ handedBack ob prev = some id := by
  have key : ∀ (ops : List Op) (s s' : State), Owns (allocBefore prev) (handedBack ob prev) s →
      run s ops = .ok s' → Owns (allocBefore prev) (handedBack ob prev) s' := by
    intro ops
    induction ops with
    | nil => intro s s' ho h; simp [run] at h; cases h; exact ho
    | cons op ops ih =>
      intro s s' ho h
      simp only [run, List.foldlM_cons] at h
      cases h1 : step s op with
      | error e => rw [h1] at h; cases h
      | ok s1 =>
        rw [h1] at h
        have : Owns (allocBefore prev) (handedBack ob prev) s1 := by
          cases op with
          | bytes bs => exact putBytes_owns _ _ bs s s1 ho h1
          | block bs => exact putBlock_owns _ _ bs s s1 ho h1
        exact ih s1 s' this h
  exact (key ops s s' (start_owns kind alloc ob prev s hs) h).2.2

-- non-vacuity: one-byte initial buffer, reallocation on, 5000 bytes written byte-wise plus
-- a direct block: the run succeeds and the invariant holds at the start.
def demoOk : Bool :=
  match start .tj true (.own 1) none with
  | .ok s => decide (0 < s.free ∧ s.free + s.rdata.length = s.cap) &&
    (match run s [.bytes (List.replicate 5000 7), .block (List.replicate 300 9)] with
     | .ok s' => (term s').1 == 5300 && s'.cap == 8192
     | .error _ => false)
  | .error _ => false
example : demoOk = true := by decide +kernel

/-- **The per-block staging buffer of the Huffman encoder is large enough**: whatever the
tables and the (range-checked) coefficients, one encoded block plus the bits pending from the
previous block never exceed `BUFSIZE` bytes of src/jchuff.c (regenerated from the working
tree) even with every byte stuffed - so neither the on-stack buffer nor the destination buffer
(which is used directly only when it has at least `BUFSIZE` bytes free) is overrun. -/
theorem block_staging_buffer_suffices (tdc tac : Huff.Tbl) (cdc cac : Huff.CDerived)
    (h1 : Huff.mkCDerived true false tdc = some cdc) (h3 : Huff.mkCDerived false false tac = some cac)
    (diff : Int) (ac : List Int) (hlen : ac.length = 63) (hd : diff.natAbs < 32768)
    (hac : ∀ v ∈ ac, v.natAbs < 32768) (bits : List Bool) (he : SeqHuff.encodeBlock cdc cac diff ac = some bits)
    (pending : Nat) (hp : pending ≤ 63) :
    2 * ((pending + bits.length) / 8) ≤ Gen.Src.jchuff_BUFSIZE :=
  SeqHuff.block_fits_buffer tdc tac cdc cac h1 h3 diff ac hlen hd hac bits he pending hp

end LJT.C13
