"""C15 - independent instances may be used concurrently from different threads."""
ID = "C15"
VARIANTS = ["san", "simd", "tsan"]
ENV = {"tsan": {"TSAN_OPTIONS": "halt_on_error=1 exitcode=66 second_deadlock_stack=1"}}
RULE = ("thr: N = 2..16 threads start together (the first use of the library in the process happens inside them) and each runs a seeded mix "
        "of operations on instances of its own: compression with thread-dependent quality / subsampling / progressive / optimised / "
        "arithmetic / fast-DCT settings, decompression of a progressive image under a thread-dependent scan limit (too low for the even "
        "threads, whose error string must name their own limit), libjpeg decompression with 1-pass colour quantisation into RGB or BGR "
        "order depending on the thread, failing calls whose message identifies the thread (truncated stream, invalid argument, unsupported "
        "scaling factor), transformation, the instance-less helpers (tj3JPEGBufSize, tj3YUVBufSize, plane sizes, tj3GetScalingFactors, "
        "tj3Alloc/tj3Free), scaled decompression, 12-bit lossless compression, with instance creation and destruction inside the loop; "
        "afterwards the same operations are run one thread at a time and every digest must be equal.  thrh: instances created by one "
        "thread (the main thread; in a second phase the neighbouring worker) are used by another, never by two at once; every thread, the "
        "creating one included, makes calls that fail inside the libjpeg layer with a message naming the caller, and the error string "
        "retrieved for the instance and for the thread must be the caller's own most recent failure.  Variants: ASan/UBSan build, SIMD "
        "build, and a ThreadSanitizer build (clang) in which any conflicting access of two threads stops the run")
TRUSTED = ["ThreadSanitizer observes conflicting accesses on the schedules that occur; the theorem covers all schedules of the model"]
ASSUMPTIONS = ["the schedules explored are those the OS produces on 16 cores; TSan reports races by happens-before, independent of the window being hit"]


def classify(op, R):
    p = op.split(" ")
    return "%s:n%s:it%s" % (p[0], p[1], p[3])


def gen_ops(rng, tier):
    big = tier == "thorough"
    ops = []
    for i in range(120 if big else 24):
        ops.append("thr %d %d %d" % (rng.choice([2, 3, 4, 8, 16, 16]), rng.randrange(1 << 30), rng.choice([20, 60, 150]) if not big else rng.choice([60, 200, 400])))
    # a fresh process per operation, in which the very first use of the library - its one-time initialisations (CPU feature detection,
    # derived tables) included - happens in all threads at once
    for i in range(40 if big else 6):
        ops.append("thr0 %d %d %d" % (rng.choice([2, 4, 8, 16]), rng.randrange(1 << 30), rng.choice([10, 30])))
    # instances created by one thread and used by another (never by two at once), failing inside the libjpeg layer with messages that
    # name the caller, while the creating thread fails on an instance of its own
    for i in range(60 if big else 12):
        ops.append("thrh %d %d %d" % (rng.choice([2, 3, 4, 8, 16]), rng.randrange(1 << 30), rng.choice([20, 60, 150])))
    return ops


def search(ctx, failing_ops):
    return []


MANIFEST = {
    "text": ("Kernel-checked Lean theorem (non-interference): in a system where each operation reads and writes only the state of the instance "
             "it is applied to, for every schedule of any number of instances each instance ends in the state, and sees the results - in "
             "particular the last error - of running its own operations alone; schedules with the same per-instance sequences are "
             "indistinguishable.  That libjpeg-turbo keeps no other shared mutable state is observed: seeded multi-threaded mixes over own "
             "instances are compared digest by digest with the same operations run alone, error strings must identify their own "
             "instance, and a ThreadSanitizer build reports any conflicting access."),
    "design_ref": "DESIGN.md 6.15",
    "note": ("Partial: absence of shared mutable state in the C code is observed (TSan, differential), not proved. Trusted: Lean kernel; axioms "
             "propext, Quot.sound, Classical.choice; ThreadSanitizer; the OS scheduler for the schedules explored."),
    "technique": "Lean 4 proof (non-interference over all interleavings) + multi-threaded differential against single-threaded runs + ThreadSanitizer build",
}
