import LJT.Gen.Nbits
import LJT.Gen.NbitsSimd
/-! `jpeg_nbits_table` / `JPEG_NBITS` (src/jpeg_nbits.h, jpeg_nbits.c; SIMD copy in
simd/x86_64/jchuff-sse2.asm).  The table is regenerated into `Gen.nbitsPacked`
(5 bits per entry) on every run. -/
namespace LJT

/-- entry `i` of the C table `jpeg_nbits_table[i]` (scalar build) -/
def nbitsTbl (i : Nat) : Nat := (Gen.nbitsPacked >>> (5 * i)) &&& 31
/-- entry `i` of the table the SIMD build links (from the SSE2 Huffman encoder) -/
def nbitsTblSimd (i : Nat) : Nat := (Gen.Simd.nbitsPacked >>> (5 * i)) &&& 31

/-- specification: floor(log2 x) + 1, and 0 for 0 -/
def nbitsSpec (x : Nat) : Nat := if x = 0 then 0 else Nat.log2 x + 1

/-- the `32 - clz(x)` form used when USE_CLZ_INTRINSIC is defined: the number of
binary digits, computed by repeated halving (structural on fuel). -/
def nbitsClz : Nat → Nat → Nat
  | 0, _ => 0
  | fuel+1, x => if x = 0 then 0 else nbitsClz fuel (x / 2) + 1

/-- binary-splitting range check, evaluated by the kernel -/
def checkRange (f g : Nat → Nat) : Nat → Nat → Nat → Bool
  | 0, lo, n => n == 0 || (n == 1 && f lo == g lo)
  | fuel+1, lo, n =>
    if n ≤ 1 then (n == 0 || f lo == g lo)
    else checkRange f g fuel lo (n / 2) && checkRange f g fuel (lo + n / 2) (n - n / 2)

theorem checkRange_sound (f g : Nat → Nat) :
    ∀ fuel lo n, checkRange f g fuel lo n = true → ∀ i, lo ≤ i → i < lo + n → f i = g i := by
  intro fuel
  induction fuel with
  | zero =>
    intro lo n h i h1 h2
    simp [checkRange] at h
    rcases h with h | ⟨h, h'⟩
    · omega
    · have : i = lo := by omega
      subst this; exact h'
  | succ k ih =>
    intro lo n h i h1 h2
    unfold checkRange at h
    split at h
    · simp at h
      rcases h with h | h
      · omega
      · have : i = lo := by omega
        subst this; exact h
    · simp only [Bool.and_eq_true] at h
      by_cases hi : i < lo + n / 2
      · exact ih lo (n/2) h.1 i h1 hi
      · exact ih (lo + n/2) (n - n/2) h.2 i (by omega) (by omega)

end LJT
