import LJT.Ops.Util
import LJT.Model.Dest
import LJT.Gen.Err
namespace LJT.Ops
open LJT.Dest

def pat (k : Nat) : Nat := (k * 131 + 7) % 256

def destRun (kind : Kind) (alloc : Bool) : List String → Option State → Option State → Nat → Nat → String → String
  | [], _, _, _, _, acc => acc
  | tok :: rest, cur, prev, lastSize, grows0, acc =>
    let c0 := tok.toList.headD ' '
    let arg := (String.ofList (tok.toList.drop 1))
    if c0 = 'S' then
      let ob : OutBuf := if tok = "Snull" then .null else if tok = "Sreuse" then .reuse lastSize else if tok = "Sreuse0" then .reuse 0
        else .own (arg.toNat?.getD 0)
      match start kind alloc ob prev with
      | .error _ => acc ++ s!" err{Gen.JERR_BUFFER_SIZE}"
      | .ok s => destRun kind alloc rest (some s) prev lastSize s.nalloc (acc ++ s!" s:{s.free}")
    else if c0 = 'w' || c0 = 'b' then
      match cur with
      | none => destRun kind alloc rest cur prev lastSize grows0 acc
      | some s =>
        let n := arg.toNat?.getD 0
        let base := s.cap - s.free
        let bs := (List.range n).map (fun j => pat (base + j))
        match (if c0 = 'b' then putBlock s bs else putBytes s bs) with
        | .error _ => acc ++ s!" err{Gen.JERR_BUFFER_SIZE}"
        | .ok s' => destRun kind alloc rest (some s') prev lastSize grows0 (acc ++ s!" w:{s'.free}:{s'.nalloc - grows0}")
    else if c0 = 'T' then
      match cur with
      | none => destRun kind alloc rest cur prev lastSize grows0 acc
      | some s =>
        let (sz, d, _) := term s
        destRun kind alloc rest none (some s) sz grows0 (acc ++ s!" T:{sz}:{fnv d}:{s.nalloc - grows0}")
    else destRun kind alloc rest cur prev lastSize grows0 acc

def opC13 : List String → Option String
  | "dest" :: k :: al :: rest =>
    let kind := if k = "tj" then Kind.tj else Kind.std
    some (destRun kind (al = "1") rest none none 0 0 "").trimAscii.toString
  | _ => none

end LJT.Ops
