import LJT.Props.C19
import LJT.Ops.C19
