import LJT.Model.Header
/-! Header fields on the wire: what `emit_jfif_app0`, `emit_adobe_app14`, `emit_sof`, `emit_dri` and the
parameter bytes of `emit_sos` (src/jcmarker.c) write, and what `examine_app0`, `examine_app14`, `get_sof`,
`get_dri` and `get_sos` (src/jdmarker.c) make of those bytes. -/
namespace LJT.HeaderIO
open LJT.Gen

/-- `emit_byte(cinfo, val)`: the value is stored as a `JOCTET` -/
def byte (v : Nat) : Nat := v % 256
/-- `emit_2bytes` -/
def emit2 (v : Nat) : List Nat := [(v >>> 8) &&& 0xFF, v &&& 0xFF]

structure Jfif where
  major : Nat
  minor : Nat
  unit : Nat
  xd : Nat
  yd : Nat
deriving Repr, DecidableEq

/-- payload of the APP0 segment `emit_jfif_app0` writes (after the length field) -/
def jfifPayload (j : Jfif) : List Nat :=
  [0x4A, 0x46, 0x49, 0x46, 0, byte j.major, byte j.minor, byte j.unit] ++ emit2 j.xd ++ emit2 j.yd ++ [0, 0]

/-- `examine_app0` on the first `datalen` bytes of an APP0 payload: the fields it stores, `none` when the
marker is not recognised as JFIF -/
def examineApp0 (data : List Nat) : Option Jfif :=
  if data.length ≥ APP0_DATA_LEN ∧ data.getD 0 0 = 0x4A ∧ data.getD 1 0 = 0x46 ∧ data.getD 2 0 = 0x49 ∧
      data.getD 3 0 = 0x46 ∧ data.getD 4 0 = 0 then
    some ⟨data.getD 5 0, data.getD 6 0, data.getD 7 0, (data.getD 8 0 <<< 8) + data.getD 9 0,
      (data.getD 10 0 <<< 8) + data.getD 11 0⟩
  else none

/-- number of payload bytes the decoder hands to `examine_app0` for an APP0 of `len` payload bytes when the
application asked for APP0 markers to be saved with `limit` (0 = not saved: `get_interesting_appn` reads up to
`APPN_DATA_LEN` bytes) -/
def examinedLen (code limit len : Nat) : Nat :=
  let l := Header.saveLimit code limit
  if l = 0 then min len 14 else min l len

/-- Adobe APP14 payload for a colour transform value -/
def adobePayload (transform : Nat) : List Nat :=
  [0x41, 0x64, 0x6F, 0x62, 0x65] ++ emit2 100 ++ emit2 0 ++ emit2 0 ++ [byte transform]

def examineApp14 (data : List Nat) : Option Nat :=
  if data.length ≥ APP14_DATA_LEN ∧ data.getD 0 0 = 0x41 ∧ data.getD 1 0 = 0x64 ∧ data.getD 2 0 = 0x6F ∧
      data.getD 3 0 = 0x62 ∧ data.getD 4 0 = 0x65 then some (data.getD 11 0 % 256)
  else none

structure CompInfo where
  id : Nat
  h : Nat
  v : Nat
  tq : Nat
deriving Repr, DecidableEq

structure Sof where
  precision : Nat
  height : Nat
  width : Nat
  comps : List CompInfo
deriving Repr, DecidableEq

/-- the SOF segment after the marker code: length and payload -/
def sofBytes (s : Sof) : List Nat :=
  emit2 (3 * s.comps.length + 2 + 5 + 1) ++ [byte s.precision] ++ emit2 s.height ++ emit2 s.width ++
    [byte s.comps.length] ++ s.comps.flatMap (fun c => [byte c.id, byte ((c.h <<< 4) + c.v), byte c.tq])

def parseComps : Nat → List Nat → Option (List CompInfo)
  | 0, _ => some []
  | n + 1, i :: hv :: tq :: rest => (parseComps n rest).map (⟨i, (hv >>> 4) &&& 15, hv &&& 15, tq⟩ :: ·)
  | _ + 1, _ => none

/-- `get_sof`: `none` = JERR_EMPTY_IMAGE / JERR_BAD_LENGTH / out of data -/
def parseSof (bs : List Nat) : Option Sof :=
  match bs with
  | l1 :: l0 :: p :: h1 :: h0 :: w1 :: w0 :: nc :: rest =>
    let length := (l1 <<< 8) + l0
    let height := (h1 <<< 8) + h0
    let width := (w1 <<< 8) + w0
    if height = 0 ∨ width = 0 ∨ nc = 0 then none
    else if length - 8 ≠ nc * 3 ∨ length < 8 then none
    else (parseComps nc rest).map (⟨p, height, width, ·⟩)
  | _ => none

/-- DRI: length field 4 and the interval -/
def driBytes (ri : Nat) : List Nat := emit2 4 ++ emit2 ri
def parseDri (bs : List Nat) : Option Nat :=
  match bs with
  | [l1, l0, r1, r0] => if (l1 <<< 8) + l0 = 4 then some ((r1 <<< 8) + r0) else none
  | _ => none

/-- the three parameter bytes that end an SOS header, and their reading in `get_sos` -/
def sosParams (ss se ah al : Nat) : List Nat := [byte ss, byte se, byte ((ah <<< 4) + al)]
def parseSosParams (bs : List Nat) : Option (Nat × Nat × Nat × Nat) :=
  match bs with
  | [ss, se, c] => some (ss, se, (c >>> 4) &&& 15, c &&& 15)
  | _ => none

end LJT.HeaderIO
