import LJT.Model.Huff
/-! Canonical-code facts about `genCodes` (Figure C.2 as coded) and the correctness of
bit-sequential decoding (`decodeLv`, Figure F.16 as coded) against the encoder table. -/
namespace LJT.Huff

/-- what a successful `genCodes` guarantees about the produced codes -/
structure CanonQ (l : List Nat) (code si : Nat) (cs : List Nat) : Prop where
  len : cs.length = l.length
  lower : ∀ j (h : j < l.length), code * 2 ^ (l[j] - si) ≤ cs.getD j 0
  upper : ∀ j (h : j < l.length), cs.getD j 0 + 1 < 2 ^ l[j]
  pair : ∀ i j (hi : i < j) (hj : j < l.length),
    (cs.getD i 0 + 1) * 2 ^ (l[j] - l[i]'(by omega)) ≤ cs.getD j 0
  head : ∀ (h : 0 < l.length), cs.getD 0 0 = code * 2 ^ (l[0] - si)
  step : ∀ j (hj : j + 1 < l.length),
    cs.getD (j + 1) 0 = (cs.getD j 0 + 1) * 2 ^ (l[j + 1] - l[j]'(by omega))

theorem pow_lt_of_mul_lt {a k n : Nat} (hk : k ≤ n) (h : a * 2 ^ (n - k) < 2 ^ n) : a < 2 ^ k := by
  apply Nat.lt_of_not_ge
  intro hge
  have : 2 ^ k * 2 ^ (n - k) ≤ a * 2 ^ (n - k) := Nat.mul_le_mul_right _ hge
  rw [← Nat.pow_add, Nat.add_sub_cancel' hk] at this
  omega

theorem genCodes_canon : ∀ (l : List Nat) (code si : Nat) (cs : List Nat),
    genCodes l code si = some cs → l.Pairwise (· ≤ ·) → (∀ s ∈ l, si ≤ s) → CanonQ l code si cs := by
  intro l code si
  induction l, code, si using genCodes.induct with
  | case1 code si hge =>
    intro cs h; simp [genCodes, hge] at h
  | case2 code si hlt =>
    intro cs h _ _
    simp [genCodes, hlt] at h; subst h
    exact ⟨rfl, fun j h => by simp at h, fun j h => by simp at h, fun i j _ h => by simp at h,
      fun h => by simp at h, fun j h => by simp at h⟩
  | case3 rest code s ih =>
    intro cs h hs hall
    rw [genCodes] at h
    simp only [if_true] at h
    cases hr : genCodes rest (code + 1) s with
    | none => rw [hr] at h; simp at h
    | some cs' =>
      rw [hr] at h; simp at h; subst h
      have hs' : rest.Pairwise (· ≤ ·) := (List.pairwise_cons.1 hs).2
      have hall' : ∀ x ∈ rest, s ≤ x := (List.pairwise_cons.1 hs).1
      have Q := ih cs' hr hs' hall'
      have hhead : code + 1 < 2 ^ s := by
        cases rest with
        | nil =>
          rw [genCodes] at hr
          split at hr
          · cases hr
          · omega
        | cons r rest' =>
          have h0 := Q.lower 0 (by simp)
          have h1 := Q.upper 0 (by simp)
          simp only [List.getElem_cons_zero] at h0 h1
          have hr' : s ≤ r := hall' r (by simp)
          exact pow_lt_of_mul_lt hr' (by omega)
      refine ⟨by simp [Q.len], ?_, ?_, ?_, by simp, ?_⟩
      rotate_right
      · intro j hj
        cases j with
        | zero =>
          simp only [List.length_cons] at hj
          simp only [List.getElem_cons_zero, List.getElem_cons_succ, List.getD_cons_zero, List.getD_cons_succ]
          simpa using Q.head (by omega)
        | succ j =>
          simp only [List.length_cons] at hj
          simp only [List.getElem_cons_succ, List.getD_cons_succ]
          exact Q.step j (by omega)
      · intro j hj
        cases j with
        | zero => simp
        | succ j =>
          simp only [List.length_cons] at hj
          simp only [List.getElem_cons_succ, List.getD_cons_succ]
          have := Q.lower j (by omega)
          have hle : code * 2 ^ (rest[j] - s) ≤ (code + 1) * 2 ^ (rest[j] - s) :=
            Nat.mul_le_mul_right _ (by omega)
          omega
      · intro j hj
        cases j with
        | zero => simpa using hhead
        | succ j =>
          simp only [List.length_cons] at hj
          simp only [List.getElem_cons_succ, List.getD_cons_succ]
          exact Q.upper j (by omega)
      · intro i j hij hj
        cases j with
        | zero => omega
        | succ j =>
          simp only [List.length_cons] at hj
          cases i with
          | zero =>
            simp only [List.getElem_cons_zero, List.getElem_cons_succ, List.getD_cons_zero, List.getD_cons_succ]
            exact Q.lower j (by omega)
          | succ i =>
            simp only [List.getElem_cons_succ, List.getD_cons_succ]
            exact Q.pair i j (by omega) (by omega)
  | case4 s rest code si hne hlt =>
    intro cs h; simp [genCodes, hne, hlt] at h
  | case5 s rest code si hne hnlt hge =>
    intro cs h; simp [genCodes, hne, hnlt, hge] at h
  | case6 s rest code si hne hnlt hnge ih =>
    intro cs h hs hall
    rw [genCodes] at h
    simp only [hne, hnlt, hnge, if_false] at h
    have hall' : ∀ x ∈ s :: rest, si + 1 ≤ x := by
      intro x hx
      have h1 := hall x hx
      rcases List.mem_cons.1 hx with rfl | hx'
      · omega
      · have := (List.pairwise_cons.1 hs).1 x hx'; omega
    have Q := ih cs h hs hall'
    have e : ∀ x, si + 1 ≤ x → code * 2 * 2 ^ (x - (si + 1)) = code * 2 ^ (x - si) := by
      intro x hx
      rw [Nat.mul_assoc, ← Nat.pow_succ']
      congr 2; omega
    refine ⟨Q.len, ?_, Q.upper, Q.pair, ?_, Q.step⟩
    · intro j hj
      have := Q.lower j hj
      have hx : si + 1 ≤ (s :: rest)[j] := hall' _ (List.getElem_mem hj)
      have := e _ hx
      omega
    · intro h0
      have := Q.head h0
      have hx : si + 1 ≤ (s :: rest)[0] := hall' _ (List.getElem_mem h0)
      rw [this]; exact e _ hx

end LJT.Huff

namespace LJT.Huff

/-! ### structure of `sizesFrom` -/

theorem sizesFrom_ge (bits : List Nat) : ∀ n l x, x ∈ sizesFrom bits l n → l ≤ x ∧ x < l + n := by
  intro n
  induction n with
  | zero => intro l x h; simp [sizesFrom] at h
  | succ n ih =>
    intro l x h
    simp only [sizesFrom, List.mem_append, List.mem_replicate] at h
    rcases h with ⟨_, rfl⟩ | h
    · omega
    · have := ih (l + 1) x h; omega

theorem sizesFrom_sorted (bits : List Nat) : ∀ n l, (sizesFrom bits l n).Pairwise (· ≤ ·) := by
  intro n
  induction n with
  | zero => intro l; simp [sizesFrom]
  | succ n ih =>
    intro l
    simp only [sizesFrom]
    rw [List.pairwise_append]
    refine ⟨?_, ih (l + 1), ?_⟩
    · exact List.pairwise_replicate.2 (Or.inr (Nat.le_refl _))
    · intro a ha b hb
      have := (List.mem_replicate.1 ha).2
      have := (sizesFrom_ge bits n (l + 1) b hb).1
      omega

theorem codes_canon (bits : List Nat) (cs : List Nat) (h : codes bits = some cs) :
    ∃ c0 s0, CanonQ (sizes bits) c0 s0 cs := by
  unfold codes at h
  split at h
  · rename_i he
    injection h with h; subst h
    exact ⟨0, 0, by rw [he]; exact ⟨rfl, fun j h => by simp at h, fun j h => by simp at h,
      fun i j _ h => by simp at h, fun h => by simp at h, fun j h => by simp at h⟩⟩
  · rename_i s rest he
    refine ⟨0, s, ?_⟩
    rw [he]
    have hs : (s :: rest).Pairwise (· ≤ ·) := by rw [← he]; exact sizesFrom_sorted bits 16 1
    refine genCodes_canon _ _ _ _ h hs ?_
    intro x hx
    rcases List.mem_cons.1 hx with rfl | hx'
    · exact Nat.le_refl _
    · exact (List.pairwise_cons.1 hs).1 x hx'

/-! ### bits of a code -/

theorem codeBits_zero (c : Nat) : codeBits c 0 = [] := rfl

theorem codeBits_succ (c k : Nat) :
    codeBits c (k + 1) = decide ((c >>> k) % 2 = 1) :: codeBits c k := by
  unfold codeBits
  rw [List.range_succ_eq_map, List.map_cons, List.map_map]
  congr 1
  apply List.map_congr_left
  intro i _
  simp only [Function.comp]
  have : k + 1 - 1 - (i + 1) = k - 1 - i := by omega
  rw [this]

theorem shift_step (c k : Nat) : (c >>> (k + 1)) * 2 + (if (c >>> k) % 2 = 1 then 1 else 0) = c >>> k := by
  rw [Nat.shiftRight_succ]
  have := Nat.div_add_mod (c >>> k) 2
  have h2 := Nat.mod_lt (c >>> k) (by omega : 0 < 2)
  split <;> omega

theorem shift_step_dec (c k : Nat) :
    (c >>> (k + 1)) * 2 + (if decide ((c >>> k) % 2 = 1) = true then 1 else 0) = c >>> k := by
  have := shift_step c k
  by_cases h : (c >>> k) % 2 = 1
  · simp only [h, decide_true, if_true] at this ⊢; exact this
  · simp only [h, decide_false, if_false] at this ⊢
    simpa using this

end LJT.Huff

namespace LJT.Huff

theorem cast_step (a : Nat) (b : Bool) :
    (a : Int) * 2 + (if b then 1 else 0) = ((a * 2 + (if b then 1 else 0) : Nat) : Int) := by
  cases b <;> simp

/-- inside one block of equal sizes the codes are consecutive integers -/
theorem block_consecutive (sz cs : List Nat) (c0 s0 : Nat) (Q : CanonQ sz c0 s0 cs) (p l : Nat) :
    ∀ j, (∀ i, i ≤ j → ∃ h : p + i < sz.length, sz[p + i] = l) → cs.getD (p + j) 0 = cs.getD p 0 + j := by
  intro j
  induction j with
  | zero => intro _; rfl
  | succ j ih =>
    intro hall
    have h0 := ih (fun i hi => hall i (by omega))
    obtain ⟨hj1, e1⟩ := hall (j + 1) (Nat.le_refl _)
    obtain ⟨hj0, e0⟩ := hall j (by omega)
    have st := Q.step (p + j) (by omega)
    have : sz[p + j + 1]'(by omega) = l := by simpa [Nat.add_assoc] using e1
    rw [this, e0, Nat.sub_self, Nat.pow_zero, Nat.mul_one] at st
    rw [show p + (j + 1) = p + j + 1 by omega, st, h0]; omega

theorem decodeLv_correct (bits vals sz cs : List Nat) (c0 s0 : Nat) (Q : CanonQ sz c0 s0 cs) :
    ∀ n l p, sz.drop p = sizesFrom bits l n → l + n = 17 →
      ∀ q (hq : q < sz.length), p ≤ q → ∀ rest tail,
        decodeLv vals (f15 bits cs n l p ++ tail) l ((cs.getD q 0 >>> (sz[q] - l) : Nat) : Int)
            (codeBits (cs.getD q 0) (sz[q] - l) ++ rest)
          = some (vals.getD q 0, false, rest) := by
  intro n
  induction n with
  | zero =>
    intro l p hdrop _ q hq hpq
    simp only [sizesFrom] at hdrop
    have := List.drop_eq_nil_iff.1 hdrop
    omega
  | succ n ih =>
    intro l p hdrop hl q hq hpq rest tail
    simp only [sizesFrom] at hdrop
    obtain ⟨b, hbdef⟩ : ∃ b, bits.getD l 0 = b := ⟨_, rfl⟩
    rw [hbdef] at hdrop
    -- elements of the block and the remainder
    have hlen : sz.length - p = b + (sizesFrom bits (l + 1) n).length := by
      have := congrArg List.length hdrop
      simpa using this
    have F1 : ∀ j, j < b → ∃ h : p + j < sz.length, sz[p + j] = l := by
      intro j hj
      have hlt : p + j < sz.length := by omega
      refine ⟨hlt, ?_⟩
      have h1 : (sz.drop p)[j]'(by simp; omega) = sz[p + j] := by simp
      rw [← h1]
      have : (List.replicate (b) l ++ sizesFrom bits (l + 1) n)[j]'(by simp; omega) = l := by
        rw [List.getElem_append_left (by simpa using hj)]; simp
      simpa [hdrop] using this
    have F2 : sz.drop (p + b) = sizesFrom bits (l + 1) n := by
      rw [← List.drop_drop, hdrop]
      simp
    by_cases hblock : q < p + b
    · -- the code has length l
      have hb : b ≠ 0 := by omega
      obtain ⟨_, eq⟩ := F1 (q - p) (by omega)
      have eq' : sz[q] = l := by simpa [Nat.add_sub_cancel' hpq] using eq
      have hcons := block_consecutive sz cs c0 s0 Q p l
      have hq_eq : cs.getD q 0 = cs.getD p 0 + (q - p) := by
        have := hcons (q - p) (fun i hi => F1 i (by omega))
        simpa [Nat.add_sub_cancel' hpq] using this
      have hlast : cs.getD (p + b - 1) 0 = cs.getD p 0 + (b - 1) := by
        have := hcons (b - 1) (fun i hi => F1 i (by omega))
        rw [show p + (b - 1) = p + b - 1 by omega] at this
        exact this
      rw [eq', Nat.sub_self, codeBits_zero, List.nil_append, Nat.shiftRight_zero]
      simp only [f15, hbdef, hb, ne_eq, not_false_eq_true, if_true, List.cons_append, decodeLv]
      have hle : ((cs.getD q 0 : Nat) : Int) ≤ ((cs.getD (p + b - 1) 0 : Nat) : Int) := by
        rw [hq_eq, hlast]; omega
      have hl16 : ¬ l > 16 := by omega
      simp only [hle, if_true, hl16, if_false]
      congr 2
      rw [hq_eq]
      have : ((cs.getD p 0 + (q - p) : Nat) : Int) + ((p : Int) - (cs.getD p 0 : Int)) = (q : Int) := by omega
      rw [this]; simp
    · -- the code is longer than l: one more bit is read
      have hmem : sz[q] ∈ sizesFrom bits (l + 1) n := by
        rw [← F2]
        have : q = (p + b) + (q - (p + b)) := by omega
        have hlt : q - (p + b) < (sz.drop (p + b)).length := by simp; omega
        have : (sz.drop (p + b))[q - (p + b)] = sz[q] := by
          simp; congr 1; omega
        rw [← this]; exact List.getElem_mem hlt
      have hge := (sizesFrom_ge bits n (l + 1) _ hmem).1
      obtain ⟨k, hk⟩ : ∃ k, sz[q] - l = k + 1 := ⟨sz[q] - l - 1, by omega⟩
      have hk' : sz[q] - (l + 1) = k := by omega
      rw [hk, codeBits_succ, List.cons_append]
      -- one step of decodeLv when the code read so far exceeds maxcode[l]
      have hstep : ∀ (mc vo : Int) lv, ¬ (((cs.getD q 0 >>> (k + 1) : Nat) : Int) ≤ mc) →
          decodeLv vals ((mc, vo) :: lv) l ((cs.getD q 0 >>> (k + 1) : Nat) : Int)
            (decide ((cs.getD q 0 >>> k) % 2 = 1) :: (codeBits (cs.getD q 0) k ++ rest)) =
          decodeLv vals lv (l + 1) ((cs.getD q 0 >>> k : Nat) : Int) (codeBits (cs.getD q 0) k ++ rest) := by
        intro mc vo lv hn
        simp only [decodeLv, hn, if_false]
        rw [cast_step, shift_step_dec]
      have IH := ih (l + 1) (p + b) F2 (by omega) q hq (by omega) rest tail
      rw [hk'] at IH
      by_cases hb : b = 0
      · have hn : ¬ (((cs.getD q 0 >>> (k + 1) : Nat) : Int) ≤ (-1 : Int)) := by
          have := Int.natCast_nonneg (cs.getD q 0 >>> (k + 1)); omega
        simp only [f15, hbdef, hb, ne_eq, not_true_eq_false, if_false, List.cons_append]
        rw [hstep _ _ _ hn]
        rw [hb, Nat.add_zero] at IH
        exact IH
      · obtain ⟨hlt, eqi⟩ := F1 (b - 1) (by omega)
        have hi : p + (b - 1) < q := by omega
        have pr := Q.pair (p + (b - 1)) q hi hq
        rw [eqi, hk] at pr
        have hge1 : cs.getD (p + (b - 1)) 0 + 1 ≤ cs.getD q 0 >>> (k + 1) := by
          rw [Nat.shiftRight_eq_div_pow]
          exact (Nat.le_div_iff_mul_le (Nat.two_pow_pos _)).2 pr
        have hn : ¬ (((cs.getD q 0 >>> (k + 1) : Nat) : Int) ≤ ((cs.getD (p + b - 1) 0 : Nat) : Int)) := by
          rw [show p + b - 1 = p + (b - 1) by omega]
          omega
        simp only [f15, hbdef, hb, ne_eq, not_false_eq_true, if_true, List.cons_append]
        rw [hstep _ _ _ hn]
        exact IH

end LJT.Huff

namespace LJT.Huff

theorem getD_set (a : Array Nat) (i j x : Nat) (hi : i < a.size) :
    (a.setIfInBounds i x).getD j 0 = if i = j then x else a.getD j 0 := by
  simp only [Array.getD_eq_getD_getElem?, Array.getElem?_setIfInBounds]
  by_cases h : i = j
  · subst h; simp [hi]
  · simp [h]

theorem toList_getD (a : Array Nat) (j : Nat) : a.toList.getD j 0 = a.getD j 0 := by
  simp [Array.getD_eq_getD_getElem?, List.getD_eq_getElem?_getD]

/-- what a successful `fillC` (Figure C.3 + validation) guarantees -/
theorem fillC_spec : ∀ (sz cs vals : List Nat) (m : Nat) (co si : Array Nat) (d : CDerived),
    fillC sz cs vals m co si = some d → sz.length ≤ cs.length → sz.length ≤ vals.length →
    (∀ x ∈ sz, x ≠ 0) → m < 256 → co.size = 256 → si.size = 256 →
    (∀ q (h : q < sz.length), d.co.getD (vals.getD q 0) 0 = cs.getD q 0 ∧ d.si.getD (vals.getD q 0) 0 = sz[q]) ∧
    (∀ s, d.si.getD s 0 ≠ 0 → si.getD s 0 ≠ 0 ∨ ∃ q, q < sz.length ∧ vals.getD q 0 = s) ∧
    (∀ s, si.getD s 0 ≠ 0 → d.si.getD s 0 = si.getD s 0 ∧ d.co.getD s 0 = co.getD s 0) := by
  intro sz
  induction sz with
  | nil =>
    intro cs vals m co si d h _ _ _ _ _ _
    simp only [fillC] at h
    injection h with h; subst h
    refine ⟨fun q h => by simp at h, fun s hs => Or.inl (by simpa [toList_getD] using hs), fun s _ => ?_⟩
    simp [toList_getD]
  | cons s0 sz ih =>
    intro cs vals m co si d h hcs hvals hnz hm hco hsi
    cases cs with
    | nil => simp at hcs
    | cons c0 cs =>
      cases vals with
      | nil => simp at hvals
      | cons v0 vals =>
        simp only [fillC] at h
        split at h
        · cases h
        · rename_i hchk
          simp only [Bool.or_eq_true, decide_eq_true_eq, bne_iff_ne, ne_eq, not_or, Nat.not_lt, Decidable.not_not] at hchk
          obtain ⟨hv0, hsi0⟩ := hchk
          have hv0' : v0 < 256 := by omega
          have IH := ih cs vals m (co.setIfInBounds v0 c0) (si.setIfInBounds v0 s0) d h
            (by simpa using hcs) (by simpa using hvals) (fun x hx => hnz x (List.mem_cons_of_mem _ hx)) hm
            (by simpa using hco) (by simpa using hsi)
          obtain ⟨I1, I2, I3⟩ := IH
          have hs0 : s0 ≠ 0 := hnz s0 (List.mem_cons_self ..)
          have hset : (si.setIfInBounds v0 s0).getD v0 0 = s0 := by rw [getD_set _ _ _ _ (by omega)]; simp
          have hsetc : (co.setIfInBounds v0 c0).getD v0 0 = c0 := by rw [getD_set _ _ _ _ (by omega)]; simp
          refine ⟨?_, ?_, ?_⟩
          · intro q hq
            cases q with
            | zero =>
              simp only [List.getD_cons_zero, List.getElem_cons_zero]
              have := I3 v0 (by rw [hset]; exact hs0)
              rw [hset, hsetc] at this
              exact ⟨this.2, this.1⟩
            | succ q =>
              simp only [List.getD_cons_succ, List.getElem_cons_succ]
              exact I1 q (by simpa using hq)
          · intro s hs
            rcases I2 s hs with h1 | ⟨q, hq, e⟩
            · rw [getD_set _ _ _ _ (by omega)] at h1
              by_cases hvs : v0 = s
              · right; exact ⟨0, by simp, by simpa using hvs⟩
              · left; simpa [hvs] using h1
            · right; exact ⟨q + 1, by simpa using hq, by simpa using e⟩
          · intro s hs
            have hne : v0 ≠ s := by
              intro e; subst e; exact hs hsi0
            have h1 : (si.setIfInBounds v0 s0).getD s 0 = si.getD s 0 := by
              rw [getD_set _ _ _ _ (by omega)]; simp [hne]
            have h2 : (co.setIfInBounds v0 c0).getD s 0 = co.getD s 0 := by
              rw [getD_set _ _ _ _ (by omega)]; simp [hne]
            have := I3 s (by rw [h1]; exact hs)
            rw [h1, h2] at this
            exact this

end LJT.Huff

namespace LJT.Huff

theorem zip_map_append {α β : Type} (lv : List (α × β)) (a : α) (b : β) :
    (lv.map (·.1) ++ [a]).zip (lv.map (·.2) ++ [b]) = lv ++ [(a, b)] := by
  induction lv with
  | nil => rfl
  | cons x lv ih => simp [ih]

theorem sizesFrom_length_le (bits : List Nat) (n l : Nat) (q : Nat) (h : q < (sizesFrom bits l n).length) :
    l ≤ (sizesFrom bits l n)[q] := (sizesFrom_ge bits n l _ (List.getElem_mem h)).1

/-- **Encoder and decoder derived tables are mutual inverses (encode then decode).**
For any table accepted by both builders, the bits the encoder emits for a coded symbol
`s`, followed by arbitrary further bits, decode to exactly `s` and leave exactly the
further bits. -/
theorem decode_encode (isDC lossless : Bool) (t : Tbl) (c : CDerived) (d : DDerived)
    (hc : mkCDerived isDC lossless t = some c) (hd : mkDDerived isDC lossless t = some d)
    (s : Nat) (bs : List Bool) (he : encode c s = some bs) (rest : List Bool) :
    decode d (bs ++ rest) = some (s, false, rest) := by
  unfold mkCDerived at hc
  unfold mkDDerived at hd
  simp only at hc hd
  split at hc
  · cases hc
  rename_i hlen
  rw [if_neg hlen] at hd
  cases hcodes : codes t.bits with
  | none => rw [hcodes] at hc; cases hc
  | some cs =>
    rw [hcodes] at hc hd
    simp only at hc hd
    obtain ⟨c0, s0, Q⟩ := codes_canon t.bits cs hcodes
    -- the decoder table
    generalize (if lossless = true then 16 else 15) = ms at hd
    split at hd
    · cases hd
    injection hd with hd
    -- facts from the encoder table
    have hm : (if isDC = true then if lossless = true then 16 else 15 else 255) < 256 := by
      cases isDC <;> cases lossless <;> decide
    have hvl : (sizes t.bits).length ≤ (t.vals ++ List.replicate (256 - t.vals.length) 0).length := by
      simp; omega
    have hnz : ∀ x ∈ sizes t.bits, x ≠ 0 := by
      intro x hx; have := (sizesFrom_ge t.bits 16 1 x hx).1; omega
    obtain ⟨S1, S2, _⟩ := fillC_spec _ _ _ _ _ _ c hc (by rw [Q.len]; exact Nat.le_refl _) hvl hnz hm (by simp) (by simp)
    -- the symbol is coded: find its position
    unfold encode at he
    simp only at he
    split at he
    · cases he
    rename_i hsi
    injection he with he
    rcases S2 s hsi with h0 | ⟨q, hq, hv⟩
    · exfalso; apply h0
      rw [Array.getD_eq_getD_getElem?, Array.getElem?_replicate]
      split <;> rfl
    obtain ⟨e1, e2⟩ := S1 q hq
    rw [hv] at e1 e2
    subst he
    rw [e1, e2]
    -- first bit
    have hL : 1 ≤ (sizes t.bits)[q] := sizesFrom_length_le t.bits 16 1 q hq
    obtain ⟨k, hk⟩ : ∃ k, (sizes t.bits)[q] = k + 1 := ⟨(sizes t.bits)[q] - 1, by omega⟩
    have hup := Q.upper q hq
    rw [hk] at hup
    have hsmall : cs.getD q 0 >>> k < 2 := by
      rw [Nat.shiftRight_eq_div_pow]
      apply (Nat.div_lt_iff_lt_mul (Nat.two_pow_pos k)).2
      rw [Nat.pow_succ] at hup; omega
    rw [hk, codeBits_succ, List.cons_append]
    simp only [decode]
    have hcode : (if decide ((cs.getD q 0 >>> k) % 2 = 1) = true then (1 : Int) else 0) = ((cs.getD q 0 >>> k : Nat) : Int) := by
      by_cases hb : (cs.getD q 0 >>> k) % 2 = 1
      · simp only [hb, decide_true, if_true]
        have : cs.getD q 0 >>> k = 1 := by rw [Nat.mod_eq_of_lt hsmall] at hb; exact hb
        rw [this]; rfl
      · simp only [hb, decide_false]
        have : cs.getD q 0 >>> k = 0 := by
          rw [Nat.mod_eq_of_lt hsmall] at hb
          generalize cs.getD q 0 >>> k = x at hb hsmall; omega
        rw [this]; rfl
    rw [hcode]
    have hlv : d.levels = f15 t.bits cs 16 1 0 ++ [((0xFFFFF : Int), (0 : Int))] := by
      rw [← hd]
      simp only [DDerived.levels, List.cons_append, List.zip_cons_cons, List.drop_succ_cons, List.drop_zero]
      exact zip_map_append _ _ _
    have hvals : d.vals = t.vals ++ List.replicate (256 - t.vals.length) 0 := by rw [← hd]
    rw [hlv, hvals]
    have main := decodeLv_correct t.bits (t.vals ++ List.replicate (256 - t.vals.length) 0) (sizes t.bits) cs c0 s0 Q
      16 1 0 (by simp [sizes]) (by omega) q hq (Nat.zero_le _) rest [((0xFFFFF : Int), (0 : Int))]
    have hk2 : (sizes t.bits)[q] - 1 = k := by omega
    rw [hk2, hv] at main
    exact main

end LJT.Huff
