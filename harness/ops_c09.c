/* C09: decoded and encoded data do not depend on I/O chunking or scheduling */
#include "exec_common.h"

typedef struct {
  struct jpeg_source_mgr pub;
  const unsigned char *data; size_t n, fed;
  unsigned char *buf; size_t cap;
  int kind; unsigned long long rs; size_t split; size_t skip_pending; long feeds;
} c09_src;

static void c09_init(j_decompress_ptr d) { (void)d; }
static boolean c09_fill(j_decompress_ptr d) { (void)d; return FALSE; }   /* always suspend: the application feeds */
static void c09_skip(j_decompress_ptr d, long nb)
{
  c09_src *s = (c09_src *)d->src;
  if (nb <= 0) return;
  if ((size_t)nb <= s->pub.bytes_in_buffer) { s->pub.next_input_byte += nb; s->pub.bytes_in_buffer -= (size_t)nb; }
  else { s->skip_pending += (size_t)nb - s->pub.bytes_in_buffer; s->pub.bytes_in_buffer = 0; }
}
static void c09_term(j_decompress_ptr d) { (void)d; }

static size_t c09_next_size(c09_src *s)
{
  size_t left = s->n - s->fed, k;
  switch (s->kind) {
  case 0: k = s->fed == 0 ? s->split : left; break;
  case 1: k = 1; break;
  case 2: s->rs = c03_mix(s->rs); k = 1 + (size_t)(s->rs % 64ULL); break;
  default: s->rs = c03_mix(s->rs); k = 1 + (size_t)(s->rs % 2000ULL); break;
  }
  if (k == 0) k = 1;
  return k > left ? left : k;
}
/* the application side: keep the unread bytes, append the next chunk */
static int c09_feed(c09_src *s)
{
  size_t k;
  if (s->fed >= s->n) return 0;
  if (s->pub.bytes_in_buffer && s->pub.next_input_byte != s->buf) memmove(s->buf, s->pub.next_input_byte, s->pub.bytes_in_buffer);
  k = c09_next_size(s);
  if (s->pub.bytes_in_buffer + k > s->cap) { s->cap = (s->pub.bytes_in_buffer + k) * 2; s->buf = (unsigned char *)realloc(s->buf, s->cap); }
  if (s->skip_pending) {
    size_t sk = s->skip_pending < k ? s->skip_pending : k;
    s->skip_pending -= sk;
    memcpy(s->buf + s->pub.bytes_in_buffer, s->data + s->fed + sk, k - sk);
    s->pub.bytes_in_buffer += k - sk;
  } else {
    memcpy(s->buf + s->pub.bytes_in_buffer, s->data + s->fed, k);
    s->pub.bytes_in_buffer += k;
  }
  s->fed += k; s->pub.next_input_byte = s->buf; s->feeds++;
  return 1;
}
static void c09_setup(j_decompress_ptr d, c09_src *s, const unsigned char *data, size_t n, int kind, unsigned long long seed, size_t split)
{
  memset(s, 0, sizeof(*s));
  s->pub.init_source = c09_init; s->pub.fill_input_buffer = c09_fill; s->pub.skip_input_data = c09_skip;
  s->pub.resync_to_restart = jpeg_resync_to_restart; s->pub.term_source = c09_term;
  s->data = data; s->n = n; s->kind = kind; s->rs = seed; s->split = split; s->cap = 4096; s->buf = (unsigned char *)malloc(s->cap);
  s->pub.next_input_byte = s->buf; s->pub.bytes_in_buffer = 0;
  d->src = &s->pub;
}

typedef struct { unsigned long long pix, mark; int w, h, nc, warn, ok, err; } c09_res;

static unsigned long long c09_markers(j_decompress_ptr d)
{
  unsigned long long h = 14695981039346656037ULL; jpeg_saved_marker_ptr m; unsigned i;
  for (m = d->marker_list; m; m = m->next) {
    h ^= m->marker; h *= 1099511628211ULL; h ^= m->original_length & 255; h *= 1099511628211ULL; h ^= m->original_length >> 8; h *= 1099511628211ULL;
    for (i = 0; i < m->data_length; i++) { h ^= m->data[i]; h *= 1099511628211ULL; }
  }
  return h;
}

/* full decompression; mode 0: memory source, 1: suspending source, 2: stdio source */
static void c09_pixels(const unsigned char *data, size_t n, int mode, int kind, unsigned long long seed, size_t split, int bufimg, c09_res *r)
{
  struct jpeg_decompress_struct d; my_err_t e; c09_src s; FILE *f = NULL; JSAMPLE *row = NULL; unsigned long long h = 14695981039346656037ULL;
  memset(r, 0, sizeof(*r)); memset(&s, 0, sizeof(s));
  d.err = my_err_init(&e);
  jpeg_create_decompress(&d);
  if (setjmp(e.jb)) { r->err = e.code; jpeg_destroy_decompress(&d); free(s.buf); free(row); if (f) fclose(f); return; }
  if (mode == 0) jpeg_mem_src(&d, data, n);
  else if (mode == 2) { f = fmemopen((void *)data, n, "rb"); jpeg_stdio_src(&d, f); }
  else c09_setup(&d, &s, data, n, kind, seed, split);
  jpeg_save_markers(&d, JPEG_COM, 0xFFFF); jpeg_save_markers(&d, JPEG_APP0 + 3, 0xFFFF);
#define FEED_OR_FAIL if (mode != 1 || !c09_feed(&s)) { r->err = -9; jpeg_destroy_decompress(&d); free(s.buf); free(row); if (f) fclose(f); return; }
  while (jpeg_read_header(&d, TRUE) == JPEG_SUSPENDED) { FEED_OR_FAIL }
  r->mark = c09_markers(&d);
  d.dct_method = JDCT_ISLOW;
  if (d.data_precision != 8) { r->err = -8; jpeg_destroy_decompress(&d); free(s.buf); if (f) fclose(f); return; }
  if (bufimg) {
    unsigned long long rs = seed ^ 0x5151ULL; int final_done = 0;
    d.buffered_image = TRUE;
    while (!jpeg_start_decompress(&d)) { FEED_OR_FAIL }
    row = (JSAMPLE *)malloc((size_t)d.output_width * d.output_components);
    while (!final_done) {
      int rc = 0, steps;
      /* absorb some input */
      rs = c03_mix(rs); steps = (int)(rs % 7ULL);
      while (steps-- > 0 && !jpeg_input_complete(&d)) {
        rc = jpeg_consume_input(&d);
        if (rc == JPEG_SUSPENDED) { if (mode == 1) { if (!c09_feed(&s)) break; } else break; }
      }
      /* an output pass on what has arrived */
      {
        int is_final = jpeg_input_complete(&d);
        while (!jpeg_start_output(&d, d.input_scan_number)) { FEED_OR_FAIL }
        h = 14695981039346656037ULL;
        while (d.output_scanline < d.output_height) {
          JSAMPROW rp = row; JDIMENSION got = jpeg_read_scanlines(&d, &rp, 1); size_t i;
          if (got == 0) { FEED_OR_FAIL continue; }
          for (i = 0; i < (size_t)d.output_width * d.output_components; i++) { h ^= row[i]; h *= 1099511628211ULL; }
        }
        while (!jpeg_finish_output(&d)) { FEED_OR_FAIL }
        if (is_final) final_done = 1;
      }
    }
  } else {
    while (!jpeg_start_decompress(&d)) { FEED_OR_FAIL }
    row = (JSAMPLE *)malloc((size_t)d.output_width * d.output_components);
    while (d.output_scanline < d.output_height) {
      JSAMPROW rp = row; JDIMENSION got = jpeg_read_scanlines(&d, &rp, 1); size_t i;
      if (got == 0) { FEED_OR_FAIL continue; }
      for (i = 0; i < (size_t)d.output_width * d.output_components; i++) { h ^= row[i]; h *= 1099511628211ULL; }
    }
  }
  r->w = (int)d.output_width; r->h = (int)d.output_height; r->nc = d.output_components;
  while (!jpeg_finish_decompress(&d)) { FEED_OR_FAIL }
  r->pix = h; r->warn = e.nwarn; r->ok = 1;
  jpeg_destroy_decompress(&d); free(s.buf); free(row); if (f) fclose(f);
}

/* msusp <seed> <icclen> <nm> (<code> <len>)*nm : (C16) a small JPEG with JFIF density, an ICC profile and the given marker segments is
 * written, then its header is read (a) from memory and (b) through the suspending source with the input cut after every single byte
 * position of the header (one cut per run), byte by byte, and in seeded chunks.  Saved markers, ICC profile and the JFIF fields must
 * not depend on where the input was cut. */
typedef struct { unsigned long long mark, icc; unsigned iccn; int jfif, du, xd, yd, adobe, ok, err, warn; } c16_hdr;
static unsigned c16_limit = 0xFFFF;   /* length limit given to jpeg_save_markers for COM and APPn */
static void c16_read(const unsigned char *data, size_t n, int mode, int kind, unsigned long long seed, size_t split, c16_hdr *r)
{
  struct jpeg_decompress_struct d; my_err_t e; c09_src s; JOCTET *icc = NULL; unsigned int iccn = 0; int m;
  memset(r, 0, sizeof(*r)); memset(&s, 0, sizeof(s));
  d.err = my_err_init(&e);
  jpeg_create_decompress(&d);
  if (setjmp(e.jb)) { r->err = e.code; jpeg_destroy_decompress(&d); free(s.buf); return; }
  if (mode == 0) jpeg_mem_src(&d, data, n); else c09_setup(&d, &s, data, n, kind, seed, split);
  jpeg_save_markers(&d, JPEG_COM, c16_limit);
  for (m = 0; m < 16; m++) jpeg_save_markers(&d, JPEG_APP0 + m, m == 2 ? 0xFFFF : c16_limit);
  while (jpeg_read_header(&d, TRUE) == JPEG_SUSPENDED) { if (mode != 1 || !c09_feed(&s)) { r->err = -9; jpeg_destroy_decompress(&d); free(s.buf); return; } }
  r->mark = c09_markers(&d);
  if (jpeg_read_icc_profile(&d, &icc, &iccn)) { unsigned i; unsigned long long h = 14695981039346656037ULL; for (i = 0; i < iccn; i++) { h ^= icc[i]; h *= 1099511628211ULL; } r->icc = h; r->iccn = iccn; free(icc); }
  r->jfif = d.saw_JFIF_marker; r->du = d.density_unit; r->xd = d.X_density; r->yd = d.Y_density; r->adobe = d.saw_Adobe_marker;
  r->warn = (int)e.nwarn; r->ok = 1;
  jpeg_destroy_decompress(&d); free(s.buf);
}
static int c16_hdr_same(const c16_hdr *a, const c16_hdr *b)
{
  return a->ok == b->ok && a->err == b->err && a->mark == b->mark && a->icc == b->icc && a->iccn == b->iccn && a->jfif == b->jfif && a->du == b->du &&
         a->xd == b->xd && a->yd == b->yd && a->adobe == b->adobe && a->warn == b->warn;
}
static int c16_msusp(toks_t *t)
{
  unsigned long long seed = (unsigned long long)tll(t, 1); int icclen = (int)tl(t, 2), nm = (int)tl(t, 3), i, y; size_t hdr = 0, p, j;
  struct jpeg_compress_struct c; my_err_t e; unsigned char *out = NULL, *buf; unsigned long outsize = 0; c16_hdr ref, got; char why[200] = "";
  c.err = my_err_init(&e);
  jpeg_create_compress(&c);
  if (setjmp(e.jb)) { printf("R err %d\n", e.code); jpeg_destroy_compress(&c); free(out); return 1; }
  jpeg_mem_dest(&c, &out, &outsize);
  c.image_width = 8; c.image_height = 8; c.input_components = 1; c.in_color_space = JCS_GRAYSCALE;
  jpeg_set_defaults(&c);
  c.density_unit = (UINT8)(1 + seed % 2); c.X_density = (UINT16)(72 + seed % 500); c.Y_density = (UINT16)(30 + (seed >> 9) % 300);
  jpeg_start_compress(&c, TRUE);
  buf = (unsigned char *)malloc(70000);
  if (icclen > 0) { for (j = 0; j < (size_t)icclen; j++) buf[j] = (unsigned char)c03_mix(seed + j); jpeg_write_icc_profile(&c, buf, (unsigned int)icclen); }
  for (i = 0; i < nm; i++) {
    int code = (int)tl(t, 4 + i * 2); size_t len = (size_t)tl(t, 5 + i * 2);
    for (j = 0; j < len; j++) buf[j] = (unsigned char)c03_mix(seed * 31ULL + (unsigned long long)i * 7919ULL + j);
    jpeg_write_marker(&c, code, buf, (unsigned int)len);
  }
  free(buf);
  { unsigned char row[8] = { 0, 32, 64, 96, 128, 160, 192, 224 }; JSAMPROW rp = row; for (y = 0; y < 8; y++) jpeg_write_scanlines(&c, &rp, 1); }
  jpeg_finish_compress(&c);
  jpeg_destroy_compress(&c);
  for (p = 2; p + 3 < outsize; ) { if (out[p] == 0xFF && out[p + 1] == 0xDA) { hdr = p; break; } p += 2 + (((size_t)out[p + 2] << 8) | out[p + 3]); }
  /* the save limit: everything, or a seeded small limit so that saved markers are truncated and their tails skipped */
  { static const unsigned lims[6] = { 0xFFFF, 0xFFFF, 16, 1, 100, 3 }; c16_limit = lims[(seed >> 20) % 6ULL]; }
  c16_read(out, outsize, 0, 0, 0, 0, &ref);
  printf("R hdr %zu limit %u markers %llu icc %u jfif %d %d %d %d warn %d\n", hdr, c16_limit, ref.mark, ref.iccn, ref.jfif, ref.du, ref.xd, ref.yd, ref.warn);
  if (!ref.ok) { printf("O fail msusp: own header not readable from memory (error %d)\n", ref.err); free(out); return 1; }
  /* one cut at every byte position of the header (at most 6000 of them, then every 7th) */
  for (p = 1; p < hdr + 4 && !why[0]; p += (p < 6000 ? 1 : 7)) {
    c16_read(out, outsize, 1, 0, 0, p, &got);
    if (!c16_hdr_same(&ref, &got)) snprintf(why, sizeof(why), "input cut after byte %zu: markers %llu icc %u jfif %d density %d/%dx%d warnings %d error %d", p, got.mark, got.iccn, got.jfif, got.du, got.xd, got.yd, got.warn, got.err);
  }
  for (i = 1; i <= 3 && !why[0]; i++) {
    c16_read(out, outsize, 1, i, seed + (unsigned long long)i, 0, &got);
    if (!c16_hdr_same(&ref, &got)) snprintf(why, sizeof(why), "chunking kind %d: markers %llu icc %u jfif %d density %d/%dx%d warnings %d error %d", i, got.mark, got.iccn, got.jfif, got.du, got.xd, got.yd, got.warn, got.err);
  }
  if (why[0]) printf("O fail msusp: header read through a suspending source differs from the read from memory (markers %llu icc %u jfif %d density %d/%dx%d): %s\n", ref.mark, ref.iccn, ref.jfif, ref.du, ref.xd, ref.yd, why);
  else printf("O ok\n");
  c16_limit = 0xFFFF;
  free(out);
  return 1;
}

static int c09_same(const c09_res *a, const c09_res *b) { return a->ok == b->ok && a->err == b->err && a->pix == b->pix && a->mark == b->mark && a->w == b->w && a->h == b->h && a->warn == b->warn; }

/* coefficient path under a suspending source; prints the t81 line */
static int c09_coefs(const unsigned char *data, size_t n, int kind, unsigned long long seed, size_t split, int print, char *got, size_t gotsz)
{
  struct jpeg_decompress_struct d; my_err_t e; c09_src s; jvirt_barray_ptr *arr;
  d.err = my_err_init(&e);
  jpeg_create_decompress(&d);
  memset(&s, 0, sizeof(s));
  if (setjmp(e.jb)) { if (print) printf("R err %d\n", e.code); jpeg_destroy_decompress(&d); free(s.buf); return 0; }
  c09_setup(&d, &s, data, n, kind, seed, split);
  while (jpeg_read_header(&d, TRUE) == JPEG_SUSPENDED) if (!c09_feed(&s)) { if (print) printf("R err starved\n"); jpeg_destroy_decompress(&d); free(s.buf); return 0; }
  while ((arr = jpeg_read_coefficients(&d)) == NULL) if (!c09_feed(&s)) { if (print) printf("R err starved\n"); jpeg_destroy_decompress(&d); free(s.buf); return 0; }
  if (print) c03_t81_print(&d, arr, e.nwarn, got, gotsz);
  else {
    /* digest only */
    int ci, k; got[0] = 0;
    for (ci = 0; ci < d.num_components; ci++) {
      jpeg_component_info *cp = &d.comp_info[ci]; JDIMENSION by, bx; unsigned long long h = 14695981039346656037ULL;
      for (by = 0; by < cp->height_in_blocks; by++) {
        JBLOCKARRAY ba = (*d.mem->access_virt_barray) ((j_common_ptr)&d, arr[ci], by, 1, FALSE);
        for (bx = 0; bx < cp->width_in_blocks; bx++) for (k = 0; k < 64; k++) { int v = ba[0][bx][k]; h ^= (unsigned long long)(v & 255); h *= 1099511628211ULL; h ^= (unsigned long long)((v >> 8) & 255); h *= 1099511628211ULL; }
      }
      snprintf(got + strlen(got), gotsz - strlen(got), "%s%llu", ci ? "," : "", h);
    }
    snprintf(got + strlen(got), gotsz - strlen(got), " w%d", e.nwarn);
  }
  while (!jpeg_finish_decompress(&d)) if (!c09_feed(&s)) break;
  jpeg_destroy_decompress(&d); free(s.buf);
  return 1;
}

/* susp kind seed hex */
static int c09_susp(toks_t *t)
{
  int kind = (int)tl(t, 1); unsigned long long seed = (unsigned long long)tll(t, 2); size_t n; unsigned char *b = hex2bytes(t->tok[3], &n);
  size_t split = n ? (size_t)(seed % (unsigned long long)n) : 0; c09_res ref, r1, r2; char got[400];
  if (!c09_coefs(b, n, kind, seed, split, 1, got, sizeof(got))) { printf("O fail susp: coefficient read under a suspending source failed where the memory source succeeds\n"); free(b); return 1; }
  c09_pixels(b, n, 0, 0, 0, 0, 0, &ref);
  c09_pixels(b, n, 1, kind, seed, split, 0, &r1);
  c09_pixels(b, n, 2, 0, 0, 0, 0, &r2);
  if (ref.err == -8) printf("O ok\n");
  else if (!c09_same(&ref, &r1)) printf("O fail susp: suspending source (kind %d, seed %llu): pixels %llu warnings %d err %d; memory source: pixels %llu warnings %d err %d\n", kind, seed, r1.pix, r1.warn, r1.err, ref.pix, ref.warn, ref.err);
  else if (!c09_same(&ref, &r2)) printf("O fail susp: stdio source differs from memory source (pixels %llu vs %llu, warnings %d vs %d)\n", r2.pix, ref.pix, r2.warn, ref.warn);
  else printf("O ok\n");
  free(b);
  return 1;
}

/* suspall step hex : two chunks, every split position that is a multiple of step (1 = all) */
static int c09_suspall(toks_t *t)
{
  size_t step = (size_t)tl(t, 1), n, k; unsigned char *b = hex2bytes(t->tok[2], &n); c09_res ref, r; char got0[400], got[400]; int bad = 0;
  if (step < 1) step = 1;
  if (!c09_coefs(b, n, 3, 1, 0, 1, got0, sizeof(got0))) { printf("O fail suspall: reference failed\n"); free(b); return 1; }
  c09_coefs(b, n, 3, 1, 0, 0, got0, sizeof(got0));
  c09_pixels(b, n, 0, 0, 0, 0, 0, &ref);
  for (k = 1; k < n && !bad; k += step) {
    if (!c09_coefs(b, n, 0, 0, k, 0, got, sizeof(got)) || strcmp(got, got0)) { printf("O fail suspall: split at byte %zu of %zu: coefficients %s, unsplit %s\n", k, n, got, got0); bad = 1; break; }
    if (ref.err != -8) {
      c09_pixels(b, n, 1, 0, 0, k, 0, &r);
      if (!c09_same(&ref, &r)) { printf("O fail suspall: split at byte %zu of %zu: pixels %llu warnings %d err %d, unsplit %llu %d %d\n", k, n, r.pix, r.warn, r.err, ref.pix, ref.warn, ref.err); bad = 1; }
    }
  }
  if (!bad) printf("O ok\n");
  free(b);
  return 1;
}

/* bufimg kind seed hex : buffered-image mode, random interleaving of input consumption and output passes */
static int c09_bufimg(toks_t *t)
{
  int kind = (int)tl(t, 1); unsigned long long seed = (unsigned long long)tll(t, 2); size_t n; unsigned char *b = hex2bytes(t->tok[3], &n); c09_res ref, r1, r2;
  c09_pixels(b, n, 0, 0, 0, 0, 0, &ref);
  printf("R skip %llu\n", ref.pix);
  if (ref.err == -8) { printf("O ok\n"); free(b); return 1; }
  c09_pixels(b, n, 1, kind, seed, n ? (size_t)(seed % n) : 0, 1, &r1);
  c09_pixels(b, n, 0, 0, seed, 0, 1, &r2);
  if (!c09_same(&ref, &r1)) printf("O fail bufimg: final pass of buffered-image mode over a suspending source (kind %d seed %llu): pixels %llu warnings %d err %d; one-pass memory source: %llu %d %d\n", kind, seed, r1.pix, r1.warn, r1.err, ref.pix, ref.warn, ref.err);
  else if (!c09_same(&ref, &r2)) printf("O fail bufimg: final pass of buffered-image mode (memory source, seed %llu): pixels %llu warnings %d; one-pass: %llu %d\n", seed, r2.pix, r2.warn, ref.pix, ref.warn);
  else printf("O ok\n");
  free(b);
  return 1;
}


/* llsusp <P> <Pt> <psv> <R> <nc> <w> <h> <kind> <seed> <rgb|ycc> <skind> <sseed> <split> : a lossless JPEG written by the real
 * compressor (ll_compress of ops_c02.c) is decompressed through the suspending source (chunk sizes as in susp: 0 = two chunks cut
 * at <split>, 1 = single bytes, 2 = 1..64, 3 = 1..2000 bytes); oracle: every sample equals (s >> Pt) << Pt, no warning, exactly as
 * from memory */
static int c09_llsusp(toks_t *t)
{
  int P = (int)tl(t, 1), Pt = (int)tl(t, 2), psv = (int)tl(t, 3), R = (int)tl(t, 4), nc = (int)tl(t, 5);
  int w = (int)tl(t, 6), h = (int)tl(t, 7), kind = (int)tl(t, 8), ycc = !strcmp(t->tok[10], "ycc"), skind = (int)tl(t, 11), err = 0, y;
  unsigned long long seed = (unsigned long long)tll(t, 9), sseed = (unsigned long long)tll(t, 12);
  size_t n = (size_t)w * h * nc, i, split = (size_t)tll(t, 13);
  unsigned short *img = (unsigned short *)malloc(n * 2 + 2), *dec = (unsigned short *)calloc(n + 1, 2);
  unsigned char *out = NULL; unsigned long outsize = 0; char why[200] = "";
  struct jpeg_decompress_struct d; my_err_t e; c09_src s; void *row = NULL; int created = 0;
  memset(&s, 0, sizeof(s));
  ll_image(img, P, nc, w, h, kind, seed);
  if (!ll_compress(P, Pt, psv, R, nc, w, h, ycc, img, &out, &outsize, &err)) { printf("R err %d\n", err); goto done; }
  d.err = my_err_init(&e);
  jpeg_create_decompress(&d); created = 1;
  if (setjmp(e.jb)) { printf("R ok\n"); printf("O fail llsusp: error %d while decompressing through a suspending source\n", e.code); goto done; }
  c09_setup(&d, &s, out, outsize, skind, sseed, split % (outsize ? outsize : 1));
#define LL_FEED if (!c09_feed(&s)) { snprintf(why, sizeof(why), "the decompressor asks for more input after all %lu bytes were delivered", outsize); break; }
  while (jpeg_read_header(&d, TRUE) == JPEG_SUSPENDED) { LL_FEED }
  if (!why[0]) {
    d.out_color_space = d.jpeg_color_space;
    while (!jpeg_start_decompress(&d)) { LL_FEED }
  }
  if (!why[0]) {
    row = malloc((size_t)w * nc * 2 + 16);
    while (d.output_scanline < d.output_height) {
      JDIMENSION got; y = (int)d.output_scanline;
      if (P <= 8) { JSAMPROW rp = (JSAMPROW)row; got = jpeg_read_scanlines(&d, &rp, 1); if (got) for (i = 0; i < (size_t)w * nc; i++) dec[(size_t)y * w * nc + i] = ((unsigned char *)row)[i]; }
      else if (P <= 12) { J12SAMPROW rp = (J12SAMPROW)row; got = jpeg12_read_scanlines(&d, &rp, 1); if (got) for (i = 0; i < (size_t)w * nc; i++) dec[(size_t)y * w * nc + i] = (unsigned short)((short *)row)[i]; }
      else { J16SAMPROW rp = (J16SAMPROW)(dec + (size_t)y * w * nc); got = jpeg16_read_scanlines(&d, &rp, 1); }
      if (got == 0) { LL_FEED }
    }
  }
  if (!why[0]) while (!jpeg_finish_decompress(&d)) { LL_FEED }
  printf("R ok\n");
  if (!why[0] && e.nwarn) snprintf(why, sizeof(why), "%d warnings (first code %d) through a suspending source", e.nwarn, e.warn[0]);
  if (!why[0]) for (i = 0; i < n; i++) {
    unsigned exp = ((unsigned)img[i] >> Pt) << Pt;
    if (dec[i] != exp) { snprintf(why, sizeof(why), "sample %zu: got %u expected %u through a suspending source (%ld deliveries, chunk kind %d)", i, dec[i], exp, s.feeds, skind); break; }
  }
  if (why[0]) printf("O fail llsusp %s\n", why); else printf("O ok\n");
done:
  if (created) jpeg_destroy_decompress(&d);
  free(s.buf); free(row); free(img); free(dec); free(out);
  return 1;
}

/* ---- suspending destination ---- */
typedef struct { struct jpeg_destination_mgr pub; unsigned char *buf; size_t size; unsigned char *out; size_t outn, outcap; int suspending; long suspensions; } c09_dst;
static void c09d_init(j_compress_ptr c) { (void)c; }
static void c09d_drain(c09_dst *d)
{
  size_t k = d->size - d->pub.free_in_buffer;
  if (d->outn + k > d->outcap) { d->outcap = (d->outn + k) * 2 + 1024; d->out = (unsigned char *)realloc(d->out, d->outcap); }
  memcpy(d->out + d->outn, d->buf, k); d->outn += k;
  d->pub.next_output_byte = d->buf; d->pub.free_in_buffer = d->size;
}
static boolean c09d_empty(j_compress_ptr c)
{
  c09_dst *d = (c09_dst *)c->dest;
  if (d->suspending) { d->suspensions++; return FALSE; }
  /* non-suspending phase (headers, trailer): the whole buffer is full */
  d->pub.free_in_buffer = 0; c09d_drain(d);
  return TRUE;
}
static void c09d_term(j_compress_ptr c) { c09d_drain((c09_dst *)c->dest); }

/* suspenc ss w h seed kind ri rirows bufseed bufmin bufmax */
static int c09_suspenc(toks_t *t)
{
  int ss = (int)tl(t, 1), w = (int)tl(t, 2), h = (int)tl(t, 3), kind = (int)tl(t, 5), ri = (int)tl(t, 6), rirows = (int)tl(t, 7), pass, y, x, ci, hs, vs, nc = ss == 3 ? 1 : 3;
  unsigned long long seed = (unsigned long long)tll(t, 4), bs = (unsigned long long)tll(t, 8); long bmin = tl(t, 9), bmax = tl(t, 10);
  unsigned char *ref = NULL; unsigned long refn = 0; unsigned char *img = (unsigned char *)malloc((size_t)w * h * nc); c09_dst dd; long stalls = 0, grow = 1; int first = 1;
  c03_factors(ss, &hs, &vs);
  for (y = 0; y < h; y++) for (x = 0; x < w; x++) for (ci = 0; ci < nc; ci++) {
    unsigned long long m = c03_mix(seed * 7919ULL + (unsigned long long)y * 104729ULL + (unsigned long long)x * 3ULL + (unsigned long long)ci);
    img[((size_t)y * w + x) * nc + ci] = (unsigned char)(kind == 0 ? m % 256ULL : kind == 1 ? 100 : ((x / 5 + y / 3) & 1) ? 250 : 5);
  }
  memset(&dd, 0, sizeof(dd));
  for (pass = 0; pass < 2; pass++) {
    struct jpeg_compress_struct c; my_err_t e; JSAMPROW rp;
    c.err = my_err_init(&e);
    jpeg_create_compress(&c);
    if (setjmp(e.jb)) { printf("R skip err %d\n", e.code); printf("O fail suspenc: compression failed (code %d, pass %d)\n", e.code, pass); jpeg_destroy_compress(&c); free(img); free(ref); free(dd.buf); free(dd.out); return 1; }
    if (pass == 0) jpeg_mem_dest(&c, &ref, &refn);
    else {
      dd.pub.init_destination = c09d_init; dd.pub.empty_output_buffer = c09d_empty; dd.pub.term_destination = c09d_term;
      dd.size = 8192; dd.buf = (unsigned char *)malloc(dd.size); dd.pub.next_output_byte = dd.buf; dd.pub.free_in_buffer = dd.size; dd.suspending = 0;
      c.dest = &dd.pub;
    }
    c.image_width = (JDIMENSION)w; c.image_height = (JDIMENSION)h; c.input_components = nc; c.in_color_space = nc == 1 ? JCS_GRAYSCALE : JCS_RGB;
    jpeg_set_defaults(&c);
    jpeg_set_quality(&c, 90, TRUE);
    if (nc == 3) { c.comp_info[0].h_samp_factor = hs; c.comp_info[0].v_samp_factor = vs; }
    c.restart_interval = (unsigned)ri; c.restart_in_rows = rirows; c.optimize_coding = FALSE; c.dct_method = JDCT_ISLOW;
    jpeg_start_compress(&c, TRUE);
    if (pass == 1) { c09d_drain(&dd); dd.suspending = 1; }
    while (c.next_scanline < c.image_height) {
      JDIMENSION got; long before = dd.suspensions;
      rp = img + (size_t)c.next_scanline * w * nc;
      got = jpeg_write_scanlines(&c, &rp, 1);
      if (pass == 1 && (dd.suspensions != before || first)) {
        /* the library suspended: take what it committed and hand it a buffer of the next seeded size; if it made no
           progress at all with an empty buffer, the buffer was smaller than one MCU: grow it */
        size_t sz; int empty_before = (dd.pub.free_in_buffer == dd.size);
        bs = c03_mix(bs); sz = (size_t)(bmin + (long)(bs % (unsigned long long)(bmax - bmin + 1)));
        if (!first && got == 0 && empty_before) { grow *= 2; if (++stalls > 40) { printf("R skip stalled\n"); printf("O fail suspenc: no progress even with %zu-byte buffers\n", dd.size); jpeg_destroy_compress(&c); free(img); free(ref); free(dd.buf); free(dd.out); return 1; } }
        sz *= (size_t)grow;
        c09d_drain(&dd);
        if (sz > dd.size) { free(dd.buf); dd.buf = (unsigned char *)malloc(sz); }
        dd.size = sz; dd.pub.next_output_byte = dd.buf; dd.pub.free_in_buffer = sz; first = 0;
      }
    }
    if (pass == 1) {
      c09d_drain(&dd); dd.suspending = 0;
      if (dd.size < 8192) { free(dd.buf); dd.size = 8192; dd.buf = (unsigned char *)malloc(dd.size); dd.pub.next_output_byte = dd.buf; dd.pub.free_in_buffer = dd.size; }
    }
    jpeg_finish_compress(&c);
    jpeg_destroy_compress(&c);
  }
  printf("R skip %lu %ld\n", refn, dd.suspensions);
  if (dd.outn != refn || memcmp(dd.out, ref, refn)) {
    size_t k = 0; while (k < dd.outn && k < refn && dd.out[k] == ref[k]) k++;
    printf("O fail suspenc: output through a suspending destination (%ld suspensions, buffers %ld..%ld) differs from the memory destination at byte %zu (lengths %zu vs %lu)\n", dd.suspensions, bmin, bmax, k, dd.outn, refn);
  } else printf("O ok\n");
  free(img); free(ref); free(dd.buf); free(dd.out);
  return 1;
}

static int dispatch_c09(toks_t *t)
{
  if (!strcmp(t->tok[0], "msusp") && t->n >= 4) return c16_msusp(t);
  if (!strcmp(t->tok[0], "susp") && t->n >= 4) return c09_susp(t);
  if (!strcmp(t->tok[0], "llsusp") && t->n >= 14) return c09_llsusp(t);
  if (!strcmp(t->tok[0], "suspall") && t->n >= 3) return c09_suspall(t);
  if (!strcmp(t->tok[0], "bufimg") && t->n >= 4) return c09_bufimg(t);
  if (!strcmp(t->tok[0], "suspenc") && t->n >= 11) return c09_suspenc(t);
  return 0;
}
