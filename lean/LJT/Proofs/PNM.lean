import LJT.Model.PNM
/-! Lemmas for C18 (PPM/PGM reader model). -/
namespace LJT.PNM

theorem rescale_le (P maxval v : Nat) (hm : 1 ≤ maxval) (hv : v ≤ maxval) : rescale P maxval v ≤ 2 ^ P - 1 := by
  unfold rescale
  apply Nat.le_of_lt_succ
  apply (Nat.div_lt_iff_lt_mul (by omega)).2
  have : v * (2 ^ P - 1) ≤ maxval * (2 ^ P - 1) := Nat.mul_le_mul_right _ hv
  have h2 : (2 ^ P - 1).succ * maxval = maxval * (2 ^ P - 1) + maxval := by
    rw [Nat.succ_mul, Nat.mul_comm]
  rw [h2]; omega

theorem rescale_id (P maxval v : Nat) (hm : 1 ≤ maxval) (hfull : maxval = 2 ^ P - 1) (_hv : v ≤ maxval) :
    rescale P maxval v = v := by
  unfold rescale
  rw [← hfull]
  apply Nat.div_eq_of_lt_le
  · omega
  · rw [Nat.succ_mul]; omega

theorem rescale_zero (P maxval : Nat) (hm : 1 ≤ maxval) : rescale P maxval 0 = 0 := by
  unfold rescale; simp; omega

theorem rescale_max (P maxval : Nat) (hm : 1 ≤ maxval) : rescale P maxval maxval = 2 ^ P - 1 := by
  unfold rescale
  apply Nat.div_eq_of_lt_le
  · rw [Nat.mul_comm]; omega
  · rw [Nat.succ_mul, Nat.mul_comm]; omega

theorem rescale_mono (P maxval a b : Nat) (hab : a ≤ b) : rescale P maxval a ≤ rescale P maxval b := by
  unfold rescale
  apply Nat.div_le_div_right
  have := Nat.mul_le_mul_right (2 ^ P - 1) hab
  omega

theorem readDigits_le (m : Nat) : ∀ (fuel val : Nat) (s : List Nat) (v : Nat) (r : List Nat),
    val ≤ m → readDigits m fuel val s = .ok (v, r) → v ≤ m := by
  intro fuel
  induction fuel with
  | zero => intro val s v r hval h; simp [readDigits] at h; omega
  | succ n ih =>
    intro val s v r hval h
    unfold readDigits at h
    split at h
    · split at h
      · dsimp only at h
        split at h
        · simp at h
        · exact ih _ _ _ _ (by omega) h
      · simp at h; omega
    · simp at h; omega

theorem readInt_le (m : Nat) (s : List Nat) (v : Nat) (r : List Nat) (h : readInt m s = .ok (v, r)) : v ≤ m := by
  unfold readInt at h
  split at h
  · simp at h
  · split at h
    · simp at h
    · split at h
      · simp at h
      · exact readDigits_le m _ _ _ _ _ (by omega) h

theorem byteSample_le (P maxval b : Nat) (hm : 1 ≤ maxval) : byteSample P maxval b ≤ 2 ^ P - 1 := by
  unfold byteSample
  split
  · exact rescale_le P maxval b hm (by assumption)
  · omega

theorem readText_le (P maxval : Nat) (hm : 1 ≤ maxval) : ∀ (n : Nat) (s : List Nat) (l : List Nat),
    readText P maxval n s = .ok l → ∀ x ∈ l, x ≤ 2 ^ P - 1 := by
  intro n
  induction n with
  | zero => intro s l h; simp [readText] at h; subst h; simp
  | succ k ih =>
    intro s l h
    unfold readText at h
    split at h
    · simp at h
    · rename_i v r hri
      split at h
      · simp at h
      · rename_i l' hl'
        simp at h; subst h
        intro x hx
        rcases List.mem_cons.1 hx with rfl | hx
        · exact rescale_le P maxval v hm (readInt_le _ _ _ _ hri)
        · exact ih _ _ hl' x hx

theorem words_all_le (maxval : Nat) (l : List Nat) (h : (words l).any (· > maxval) = false) :
    ∀ x ∈ words l, x ≤ maxval := by
  intro x hx
  have := List.any_eq_false.1 h x hx
  simpa using this

theorem readRaw_le (P maxval rs : Nat) (wide : Bool) (hm : 1 ≤ maxval) : ∀ (h : Nat) (s : List Nat) (l : List Nat),
    readRaw P maxval rs wide h s = .ok l → ∀ x ∈ l, x ≤ 2 ^ P - 1 := by
  intro h
  induction h with
  | zero => intro s l hl; simp [readRaw] at hl; subst hl; simp
  | succ k ih =>
    intro s l hl
    cases wide with
    | true =>
      unfold readRaw at hl
      simp only [if_true, true_and] at hl
      split at hl
      · simp at hl
      · split at hl
        · simp at hl
        · rename_i hbad
          split at hl
          · simp at hl
          · rename_i l' hl'
            simp at hl; subst hl
            intro x hx
            rcases List.mem_append.1 hx with hx | hx
            · simp at hx
              obtain ⟨a, ha, rfl⟩ := hx
              simp at hbad
              exact rescale_le P maxval a hm (hbad a ha)
            · exact ih _ _ hl' x hx
    | false =>
      unfold readRaw at hl
      simp only [Bool.false_eq_true, if_false, false_and] at hl
      split at hl
      · simp at hl
      · split at hl
        · simp at hl
        · rename_i l' hl'
          simp at hl; subst hl
          intro x hx
          rcases List.mem_append.1 hx with hx | hx
          · first
              | (obtain ⟨a, _, rfl⟩ := List.mem_map.1 hx; exact byteSample_le P maxval a hm)
              | (obtain ⟨a, _, rfl⟩ := List.mem_map.1 (List.mem_of_mem_take hx); exact byteSample_le P maxval a hm)
          · exact ih _ _ hl' x hx


theorem mkPixel_range (lay : Nat × Nat × Nat × Option Nat × Nat) (P r g b : Nat)
    (hr : r ≤ 2 ^ P - 1) (hg : g ≤ 2 ^ P - 1) (hb : b ≤ 2 ^ P - 1) :
    ∀ x ∈ mkPixel lay P r g b, -1 ≤ x ∧ x ≤ ((2 ^ P - 1 : Nat) : Int) := by
  obtain ⟨ri, gi, bi, ai, ps⟩ := lay
  intro x hx
  simp only [mkPixel, List.mem_map] at hx
  obtain ⟨i, _, rfl⟩ := hx
  repeat' split
  all_goals omega

theorem chunk_mem {α : Type} (n : Nat) : ∀ (k : Nat) (l : List α) (c : List α), c ∈ chunk n k l → ∀ y ∈ c, y ∈ l := by
  intro k
  induction k with
  | zero => intro l c hc; simp [chunk] at hc
  | succ j ih =>
    intro l c hc y hy
    simp only [chunk, List.mem_cons] at hc
    rcases hc with rfl | hc
    · exact List.mem_of_mem_take hy
    · exact List.mem_of_mem_drop (ih _ _ hc y hy)

theorem triples_mem : ∀ (l : List Nat) (t : Nat × Nat × Nat), t ∈ triples l → t.1 ∈ l ∧ t.2.1 ∈ l ∧ t.2.2 ∈ l
  | [], t, h => by simp [triples] at h
  | [_], t, h => by simp [triples] at h
  | [_, _], t, h => by simp [triples] at h
  | r :: g :: b :: rest, t, h => by
    simp only [triples, List.mem_cons] at h
    rcases h with rfl | h
    · simp
    · have := triples_mem rest t h
      simp [this]

theorem rows_mem {α : Type} (bu : Bool) (rows : List α) (row : α) (h : row ∈ (if bu = true then rows.reverse else rows)) :
    row ∈ rows := by
  cases bu <;> simpa using h

/-- what `load` guarantees about a successfully loaded image -/
def Image.Good (P mp : Nat) (img : Image) : Prop :=
  (∀ row ∈ img.rows, ∀ x ∈ row, -1 ≤ x ∧ x ≤ ((2 ^ P - 1 : Nat) : Int)) ∧
  (mp ≠ 0 → img.w * img.h ≤ mp) ∧ 1 ≤ img.w ∧ 1 ≤ img.h ∧ img.w ≤ 65535 ∧ img.h ≤ 65535

theorem load_good (P pf mp : Nat) (bu : Bool) (file : List Nat) (img : Image)
    (h : load P pf mp bu file = .ok img) : img.Good P mp := by
  unfold load at h
  split at h
  · simp at h
  · rename_i c s0
    split at h
    · simp at h
    · split at h
      · simp at h
      · rename_i w s1 hw
        split at h
        · simp at h
        · rename_i hh s2 hhh
          split at h
          · simp at h
          · rename_i maxval s3 hmv
            split at h
            · simp at h
            · rename_i hz
              split at h
              · simp at h
              · rename_i hpix
                dsimp only at h
                split at h
                · simp at h
                · rename_i pfo hpfo
                  split at h
                  · simp at h
                  · rename_i vs hvs
                    have hm : 1 ≤ maxval := by omega
                    have hvs' : ∀ x ∈ vs, x ≤ 2 ^ P - 1 := by
                      split at hvs
                      · exact readText_le P maxval hm _ _ _ hvs
                      · exact readRaw_le P maxval _ _ hm _ _ _ hvs
                    simp only [Except.ok.injEq] at h
                    subst h
                    refine ⟨?_, ?_, by show 1 ≤ w; omega, by show 1 ≤ hh; omega, readInt_le _ _ _ _ hw, readInt_le _ _ _ _ hhh⟩
                    · intro row hrow x hx
                      have hrow' := rows_mem _ _ _ hrow
                      obtain ⟨c, hc, rfl⟩ := List.mem_map.1 hrow'
                      obtain ⟨px, hpx, hxpx⟩ := List.mem_flatten.1 hx
                      have hpx' := chunk_mem w hh _ c hc px hpx
                      split at hpx'
                      · obtain ⟨v, hv, rfl⟩ := List.mem_map.1 hpx'
                        simp at hxpx; subst hxpx
                        have := hvs' v hv
                        omega
                      · split at hpx'
                        · obtain ⟨v, hv, rfl⟩ := List.mem_map.1 hpx'
                          exact mkPixel_range _ P v v v (hvs' v hv) (hvs' v hv) (hvs' v hv) x hxpx
                        · obtain ⟨t, ht, rfl⟩ := List.mem_map.1 hpx'
                          obtain ⟨h1, h2, h3⟩ := triples_mem vs t ht
                          exact mkPixel_range _ P _ _ _ (hvs' _ h1) (hvs' _ h2) (hvs' _ h3) x hxpx
                    · intro hmp
                      dsimp only
                      omega
  · simp at h


def V (init : Nat) (l : List Nat) : Nat := l.foldl (fun v d => v * 10 + (d - 48)) init

theorem V_ge (l : List Nat) : ∀ v, v ≤ V v l := by
  induction l with
  | nil => intro v; simp [V]
  | cons d t ih => intro v; have := ih (v * 10 + (d - 48)); simp only [V, List.foldl_cons] at *; omega

theorem isDigit_ne_hash {d : Nat} (h : isDigit d = true) : d ≠ 35 := by
  simp [isDigit] at h; omega

theorem readDigits_digits (m : Nat) (c : Nat) (rest : List Nat) (hc : isDigit c = false) (hc2 : c ≠ 35) :
    ∀ (ds : List Nat) (fuel val : Nat), (∀ d ∈ ds, isDigit d = true) → V val ds ≤ m → ds.length < fuel →
      readDigits m fuel val (ds ++ c :: rest) = .ok (V val ds, rest) := by
  intro ds
  induction ds with
  | nil =>
    intro fuel val _ _ hf
    obtain ⟨f, rfl⟩ : ∃ f, fuel = f + 1 := ⟨fuel - 1, by simp at hf; omega⟩
    simp [readDigits, pbmGetc, hc2, hc, V]
  | cons d t ih =>
    intro fuel val hd hV hf
    obtain ⟨f, rfl⟩ : ∃ f, fuel = f + 1 := ⟨fuel - 1, by simp at hf; omega⟩
    have hdd : isDigit d = true := hd d (by simp)
    have hne := isDigit_ne_hash hdd
    have hV' : V (val * 10 + (d - 48)) t ≤ m := by simpa [V] using hV
    have hle : val * 10 + (d - 48) ≤ m := Nat.le_trans (V_ge t _) hV'
    simp only [List.cons_append, readDigits, pbmGetc, hne, if_false, hdd, if_true]
    rw [if_neg (by omega)]
    rw [ih f _ (fun x hx => hd x (by simp [hx])) hV' (by simp at hf; omega)]
    simp [V]

theorem decAux_digits : ∀ (fuel n : Nat) (acc : List Nat), (∀ d ∈ acc, isDigit d = true) →
    ∀ d ∈ decDigitsAux fuel n acc, isDigit d = true := by
  intro fuel
  induction fuel with
  | zero => intro n acc h; simpa [decDigitsAux] using h
  | succ f ih =>
    intro n acc h
    unfold decDigitsAux
    split
    · intro d hd
      rcases List.mem_cons.1 hd with rfl | hd
      · simp [isDigit]; omega
      · exact h d hd
    · apply ih
      intro d hd
      rcases List.mem_cons.1 hd with rfl | hd
      · simp [isDigit]; omega
      · exact h d hd

theorem decAux_val : ∀ (fuel n : Nat) (acc : List Nat), n < fuel → V 0 (decDigitsAux fuel n acc) = V n acc := by
  intro fuel
  induction fuel with
  | zero => intro n acc h; omega
  | succ f ih =>
    intro n acc h
    unfold decDigitsAux
    split
    · simp [V]
    · rw [ih _ _ (by omega)]
      simp only [V, List.foldl_cons]
      congr 1; omega

theorem decAux_ne_nil : ∀ (fuel n : Nat) (acc : List Nat), n < fuel → decDigitsAux fuel n acc ≠ [] := by
  intro fuel
  induction fuel with
  | zero => intro n acc h; omega
  | succ f ih =>
    intro n acc h
    unfold decDigitsAux
    split
    · simp
    · exact ih _ _ (by omega)

/-- **decimal printing followed by `read_pbm_integer` is the identity** (with optional leading
white space, as in the headers `wrppm.c` writes) -/
theorem readInt_decDigits (m n c : Nat) (rest : List Nat) (hn : n ≤ m) (hc : isDigit c = false) (hc2 : c ≠ 35) :
    readInt m (decDigits n ++ c :: rest) = .ok (n, rest) := by
  have hdig := decAux_digits (n + 1) n [] (by simp)
  have hval := decAux_val (n + 1) n [] (by omega)
  have hne := decAux_ne_nil (n + 1) n [] (by omega)
  unfold decDigits
  generalize decDigitsAux (n + 1) n [] = ds at *
  cases ds with
  | nil => exact absurd rfl hne
  | cons d t =>
    have hdd : isDigit d = true := hdig d (by simp)
    have hd35 := isDigit_ne_hash hdd
    have hws : isWs d = false := by simp [isDigit] at hdd; simp [isWs]; omega
    have hV : V (d - 48) t = n := by simpa [V] using hval
    have hle : d - 48 ≤ m := Nat.le_trans (V_ge t _) (by omega)
    simp only [readInt, List.cons_append, List.length_cons, skipWs, pbmGetc, hd35, if_false, hws, hdd]
    simp only [Bool.not_true, Bool.false_eq_true, if_false]
    rw [readDigits_digits m c rest hc hc2 t _ _ (fun x hx => hdig x (by simp [hx])) (by rw [hV]; exact hn) (by simp; omega)]
    rw [hV, if_neg (Nat.not_lt.2 hle)]
    simp [hdd]

theorem readInt_skip_ws (m wsc : Nat) (s : List Nat) (hws : isWs wsc = true) : readInt m (wsc :: s) = readInt m s := by
  have h35 : wsc ≠ 35 := by simp [isWs] at hws; omega
  simp only [readInt, List.length_cons, skipWs, pbmGetc, h35, if_false, hws, if_true]

def encRow (bits : Nat) (row : List Nat) : List Nat := row.flatMap (putSample bits)

theorem encRow8 : ∀ (r : List Nat), (∀ v ∈ r, v ≤ 255) → encRow 8 r = r := by
  intro r
  induction r with
  | nil => intro _; rfl
  | cons a t ih =>
    intro h
    have ha : a ≤ 255 := h a (by simp)
    have := ih (fun v hv => h v (by simp [hv]))
    simp only [encRow, List.flatMap_cons, putSample] at *
    rw [this]; simp; omega

theorem putSample16 (v : Nat) : putSample 16 v = [(v / 256) % 256, v % 256] := by simp [putSample]

theorem words_encRow16 : ∀ (r : List Nat), (∀ v ∈ r, v ≤ 65535) → words (encRow 16 r) = r ∧ (encRow 16 r).length = r.length * 2 := by
  intro r
  induction r with
  | nil => intro _; simp [encRow, words]
  | cons a t ih =>
    intro h
    have ha : a ≤ 65535 := h a (by simp)
    obtain ⟨h1, h2⟩ := ih (fun v hv => h v (by simp [hv]))
    simp only [encRow, List.flatMap_cons, putSample16] at *
    simp only [List.cons_append, List.nil_append, words, h1, List.length_cons, h2]
    constructor
    · congr 1; omega
    · omega

theorem map_rescale_id (P maxval : Nat) (hm : 1 ≤ maxval) (hfull : maxval = 2 ^ P - 1) :
    ∀ (r : List Nat), (∀ v ∈ r, v ≤ maxval) → r.map (rescale P maxval) = r := by
  intro r h
  conv => rhs; rw [← List.map_id r]
  apply List.map_congr_left
  intro a ha; simp [rescale_id P maxval a hm hfull (h a ha)]

theorem map_byteSample_id (P maxval : Nat) (hm : 1 ≤ maxval) (hfull : maxval = 2 ^ P - 1) :
    ∀ (r : List Nat), (∀ v ∈ r, v ≤ maxval) → r.map (byteSample P maxval) = r := by
  intro r h
  conv => rhs; rw [← List.map_id r]
  apply List.map_congr_left
  intro a ha; simp [byteSample, h a ha, rescale_id P maxval a hm hfull (h a ha)]

/-- the raw body written row by row is read back as the same samples -/
theorem readRaw_enc (P maxval rs bits : Nat) (hm : 1 ≤ maxval) (hfull : maxval = 2 ^ P - 1)
    (hb : (bits = 8 ∧ maxval ≤ 255) ∨ (bits ≠ 8 ∧ 255 < maxval ∧ maxval ≤ 65535)) :
    ∀ (rows : List (List Nat)), (∀ r ∈ rows, r.length = rs ∧ ∀ v ∈ r, v ≤ maxval) →
      readRaw P maxval rs (decide (maxval > 255)) rows.length ((rows.map (encRow bits)).flatten) = .ok rows.flatten := by
  intro rows
  induction rows with
  | nil => intro _; simp [readRaw]
  | cons r t ih =>
    intro h
    obtain ⟨hlen, hv⟩ := h r (by simp)
    have iht := ih (fun r' hr' => h r' (by simp [hr']))
    rcases hb with ⟨rfl, h255⟩ | ⟨hb8, h255, h64⟩
    · have hw : decide (maxval > 255) = false := by simp; omega
      rw [hw] at iht ⊢
      have henc : encRow 8 r = r := encRow8 r (fun v hv' => by have := hv v hv'; omega)
      simp only [List.map_cons, List.flatten_cons, List.length_cons, readRaw, henc, Bool.false_eq_true, if_false, false_and]
      rw [if_neg (by simp; omega)]
      rw [List.drop_left' hlen, iht, List.take_left' hlen, map_byteSample_id P maxval hm hfull r hv]
    · have hw : decide (maxval > 255) = true := by simp; omega
      rw [hw] at iht ⊢
      have hbits : ∀ row, encRow bits row = encRow 16 row := by
        intro row; unfold encRow; congr 1; funext v; simp [putSample, hb8]
      obtain ⟨hwords, hl2⟩ := words_encRow16 r (fun v hv' => by have := hv v hv'; omega)
      simp only [List.map_cons, List.flatten_cons, List.length_cons, readRaw, if_true, true_and, hbits]
      rw [if_neg (by simp [hl2]; omega)]
      have hl2' : (encRow 16 r).length = rs * 2 := by omega
      rw [List.take_left' hl2', List.drop_left' hl2', hwords]
      rw [if_neg (by simp; intro x hx; exact hv x hx)]
      rw [iht, map_rescale_id P maxval hm hfull r hv]

theorem chunk_flatten_map {α β : Type} (f : α → β) (w : Nat) : ∀ (rs : List (List α)), (∀ r ∈ rs, r.length = w) →
    chunk w rs.length (rs.flatten.map f) = rs.map (List.map f) := by
  intro rs
  induction rs with
  | nil => intro _; simp [chunk]
  | cons r t ih =>
    intro h
    have hr : r.length = w := h r (by simp)
    have hr' : (List.map f r).length = w := by simpa using hr
    simp only [List.flatten_cons, List.map_append, List.length_cons, chunk, List.map_cons]
    rw [List.take_left' hr', List.drop_left' hr', ih (fun r' hr'' => h r' (by simp [hr'']))]

theorem flatten_singletons {α β : Type} (g : α → β) (l : List α) : (l.map (fun v => [g v])).flatten = l.map g := by
  induction l with
  | nil => rfl
  | cons a t ih => simp [ih]

theorem two_pow_ge (P : Nat) (h : 1 ≤ P) : 2 ≤ 2 ^ P := by
  calc 2 = 2 ^ 1 := rfl
    _ ≤ 2 ^ P := Nat.pow_le_pow_right (by omega) h

/-- **Saving a grayscale image and loading it back returns the same samples**, for every
precision 2..16 with the sample type that carries it, both row orders, any size the format
can express -/
theorem save_load_gray (P bits : Nat) (hP : 2 ≤ P ∧ P ≤ 16) (hbits : (bits = 8 ∧ P ≤ 8) ∨ (bits ≠ 8 ∧ 9 ≤ P))
    (bu : Bool) (w h : Nat) (hw : 1 ≤ w ∧ w ≤ 65535) (hh : 1 ≤ h ∧ h ≤ 65535) (rows : List (List Nat))
    (hlen : rows.length = h) (hrows : ∀ r ∈ rows, r.length = w ∧ ∀ v ∈ r, v ≤ 2 ^ P - 1) :
    ∃ f, save P bits 6 bu w h rows = some f ∧
      load P 6 0 bu f = .ok ⟨w, h, 6, rows.map (List.map (fun (v : Nat) => (v : Int)))⟩ := by
  have h2P : 2 ≤ 2 ^ P := two_pow_ge P (by omega)
  have hmle : 2 ^ P - 1 ≤ 65535 := by
    have : 2 ^ P ≤ 2 ^ 16 := Nat.pow_le_pow_right (by omega) hP.2
    omega
  generalize hm : 2 ^ P - 1 = m at *
  have hm1 : 1 ≤ m := by omega
  have hb : (bits = 8 ∧ m ≤ 255) ∨ (bits ≠ 8 ∧ 255 < m ∧ m ≤ 65535) := by
    rcases hbits with ⟨hb8, hp8⟩ | ⟨hb8, hp9⟩
    · left; refine ⟨hb8, ?_⟩
      have : 2 ^ P ≤ 2 ^ 8 := Nat.pow_le_pow_right (by omega) hp8
      omega
    · right; refine ⟨hb8, ?_, hmle⟩
      have : 2 ^ 9 ≤ 2 ^ P := Nat.pow_le_pow_right (by omega) hp9
      omega
  let rs := if bu = true then rows.reverse else rows
  have hrs : ∀ r ∈ rs, r.length = w ∧ ∀ v ∈ r, v ≤ m := by
    intro r hr; exact hrows r (rows_mem bu rows r hr)
  have hrslen : rs.length = h := by
    show (if bu = true then rows.reverse else rows).length = h
    cases bu <;> simp [hlen]
  have hbody : (rs.map (fun r => (r.take w).flatMap (putSample bits))) = rs.map (encRow bits) := by
    apply List.map_congr_left
    intro r hr
    have := (hrs r hr).1
    rw [List.take_of_length_le (by omega)]; rfl
  refine ⟨_, by simp only [save, if_true]; rfl, ?_⟩
  rw [hm]
  show load P 6 0 bu ([80, 53, 10] ++ decDigits w ++ [32] ++ decDigits h ++ [10] ++ decDigits m ++ [10] ++ (rs.map (fun r => (r.take w).flatMap (putSample bits))).flatten) = _
  rw [hbody]
  have hshape : [80, 53, 10] ++ decDigits w ++ [32] ++ decDigits h ++ [10] ++ decDigits m ++ [10] ++ (rs.map (encRow bits)).flatten
      = 80 :: 53 :: 10 :: (decDigits w ++ 32 :: (decDigits h ++ 10 :: (decDigits m ++ 10 :: (rs.map (encRow bits)).flatten))) := by
    simp
  rw [hshape]
  have hraw := readRaw_enc P m w bits hm1 hm.symm hb rs hrs
  rw [hrslen] at hraw
  unfold load
  simp only [readInt_skip_ws 65535 10 _ (by decide),
    readInt_decDigits 65535 w 32 _ hw.2 (by decide) (by decide),
    readInt_decDigits 65535 h 10 _ hh.2 (by decide) (by decide),
    readInt_decDigits 65535 m 10 _ hmle (by decide) (by decide)]
  have hz : ¬ (w = 0 ∨ h = 0 ∨ m = 0) := by omega
  simp only [show ¬ ((53 : Nat) ≠ 50 ∧ (53 : Nat) ≠ 51 ∧ (53 : Nat) ≠ 53 ∧ (53 : Nat) ≠ 54) by omega, if_false, hz,
    show ¬ ((0 : Nat) ≠ 0 ∧ w * h > 0) by omega]
  simp only [or_true, if_true, Nat.mul_one, show ¬((53 : Nat) = 50 ∨ (53 : Nat) = 51) by omega, if_false, hraw]
  congr 1
  have hchunk := chunk_flatten_map (fun (v : Nat) => [(v : Int)]) w rs (fun r hr => (hrs r hr).1)
  rw [hrslen] at hchunk
  simp only [hchunk, List.map_map]
  have : (List.flatten ∘ List.map fun (v : Nat) => [(v : Int)]) = List.map (fun (v : Nat) => (v : Int)) := by
    funext l; exact flatten_singletons _ l
  rw [this]
  congr 1
  cases bu <;> simp [rs]

end LJT.PNM
