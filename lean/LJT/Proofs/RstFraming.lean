import LJT.Proofs.Bits
/-! Restart-marker framing: entropy-coded segments joined by RSTn markers are recovered exactly by splitting
at `FF D0..D7`, because byte stuffing leaves no `FF` followed by anything but `00` inside a segment. -/
namespace LJT.Bits

theorem splitRST_ff00 (bs acc : List Nat) : splitRST (0xFF :: 0x00 :: bs) acc = splitRST bs (0x00 :: 0xFF :: acc) := by
  simp [splitRST]

theorem splitRST_marker (c : Nat) (bs acc : List Nat) (h : 0xD0 ≤ c ∧ c ≤ 0xD7) :
    splitRST (0xFF :: c :: bs) acc = acc.reverse :: splitRST bs [] := by
  simp [splitRST, h]

theorem splitRST_plain (b c : Nat) (bs acc : List Nat) (h : b ≠ 0xFF) :
    splitRST (b :: c :: bs) acc = splitRST (c :: bs) (b :: acc) := by
  simp [splitRST, h]

theorem splitRST_single (b : Nat) (acc : List Nat) : splitRST [b] acc = [(b :: acc).reverse] := by
  simp [splitRST]

/-- scanning stuffed data that is followed by a restart marker: everything up to the marker is one segment -/
theorem splitRST_stuff_marker : ∀ (bs acc : List Nat) (k : Nat) (rest : List Nat),
    splitRST (stuff bs ++ 0xFF :: (0xD0 + k % 8) :: rest) acc = (acc.reverse ++ stuff bs) :: splitRST rest [] := by
  intro bs
  induction bs with
  | nil =>
    intro acc k rest
    simp only [stuff, List.nil_append, List.append_nil]
    exact splitRST_marker _ _ _ (by omega)
  | cons b bs ih =>
    intro acc k rest
    unfold stuff
    by_cases h : b = 0xFF
    · subst h
      simp only [if_true, List.cons_append]
      rw [splitRST_ff00, ih]
      simp
    · simp only [h, if_false, List.cons_append]
      cases hs : stuff bs ++ 0xFF :: (0xD0 + k % 8) :: rest with
      | nil => simp at hs
      | cons c tl =>
        rw [splitRST_plain b c tl acc h, ← hs, ih]
        simp

/-- scanning the stuffed data of the last segment -/
theorem splitRST_stuff_end : ∀ (bs acc : List Nat), splitRST (stuff bs) acc = [acc.reverse ++ stuff bs] := by
  intro bs
  induction bs with
  | nil => intro acc; simp [stuff, splitRST]
  | cons b bs ih =>
    intro acc
    unfold stuff
    by_cases h : b = 0xFF
    · subst h
      simp only [if_true]
      rw [splitRST_ff00, ih]; simp
    · simp only [h, if_false]
      cases hs : stuff bs with
      | nil => rw [splitRST_single]; simp
      | cons c tl =>
        rw [splitRST_plain b c tl acc h, ← hs, ih]; simp

/-- **Restart framing round trip**: whatever the bit strings of the restart intervals are, splitting the
entropy-coded data of a scan at its RSTn markers returns exactly the bytes of each interval, in order. -/
theorem splitRST_joinRST : ∀ (segs : List (List Bool)) (k : Nat), segs ≠ [] →
    splitRST (joinRST (segs.map segmentBytes) k) [] = segs.map segmentBytes := by
  intro segs
  induction segs with
  | nil => intro _ h; exact absurd rfl h
  | cons s rest ih =>
    intro k _
    cases rest with
    | nil =>
      simp only [List.map_cons, List.map_nil, joinRST, segmentBytes]
      rw [splitRST_stuff_end]; simp
    | cons s2 rest2 =>
      have := ih (k + 1) (by simp)
      simp only [List.map_cons, joinRST, segmentBytes, List.append_assoc, List.cons_append, List.nil_append] at this ⊢
      rw [splitRST_stuff_marker, this]; simp

end LJT.Bits
