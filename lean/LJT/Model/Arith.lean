import LJT.Gen.Tables
/-! The QM arithmetic decoder of T.81 Annex D as coded in src/jdarith.c (`arith_decode`) and the
statistics bins.  The binarisation of coefficients on top of it is in Model/ArithBin.lean.  Executable model used
by the independent reader for arithmetic-coded streams. -/
namespace LJT.Arith

/-- decoder registers, the unread bytes of the interval, and all statistics bins:
DC table `t` at `t*64`, AC table `t` at `1024 + t*256`, the fixed bin at 5120 -/
structure AS where
  c : Nat
  a : Nat
  ct : Int
  data : List Nat
  atMarker : Bool
  stats : Array Nat
  err : Bool

def fixedBin : Nat := 5120
def dcBase (t : Nat) : Nat := t * 64
def acBase (t : Nat) : Nat := 1024 + t * 256

def AS.init (data : List Nat) : AS :=
  ⟨0, 0, -16, data, false, (Array.replicate 5121 0).set! fixedBin 113, false⟩

/-- `get_byte` with the marker / stuffing convention of `arith_decode` -/
def nextByte (s : AS) : Nat × AS :=
  if s.atMarker then (0, s) else
  match s.data with
  | [] => (0, { s with atMarker := true })
  | b :: r =>
    if b != 0xFF then (b, { s with data := r }) else
    -- swallow extra 0xFF bytes
    let r' := r.dropWhile (· == 0xFF)
    match r' with
    | [] => (0, { s with data := [], atMarker := true })
    | x :: r2 => if x == 0 then (0xFF, { s with data := r2 }) else (0, { s with data := r', atMarker := true })

/-- renormalisation loop of `arith_decode` -/
def renorm : Nat → AS → AS
  | 0, s => s
  | fuel + 1, s =>
    if s.a ≥ 0x8000 then s else
    let s := Id.run do
      let mut s := s
      s := { s with ct := s.ct - 1 }
      if s.ct < 0 then
        let (d, s') := nextByte s
        s := { s' with c := s'.c * 256 + d, ct := s'.ct + 8 }
        if s.ct < 0 then
          s := { s with ct := s.ct + 1 }
          if s.ct == 0 then s := { s with a := 0x8000 }
      return s
    renorm fuel { s with a := s.a * 2 }

/-- `arith_decode`: one binary decision with the statistics bin `st` -/
def decode (s : AS) (st : Nat) : Nat × AS :=
  let s := renorm 64 s
  let sv := s.stats.getD st 0
  let q := Gen.aritab.getD (sv % 128) 0
  let nl := q % 256
  let nm := (q / 256) % 256
  let qe := q / 65536
  let a1 := s.a - qe
  let temp := a1 * 2 ^ s.ct.toNat
  if s.c ≥ temp then
    let c := s.c - temp
    if a1 < qe then
      (sv / 128, { s with c := c, a := qe, stats := s.stats.setIfInBounds st (((sv / 128) * 128) ^^^ nm) })
    else
      (1 - sv / 128, { s with c := c, a := qe, stats := s.stats.setIfInBounds st (((sv / 128) * 128) ^^^ nl) })
  else if a1 < 0x8000 then
    if a1 < qe then
      (1 - sv / 128, { s with a := a1, stats := s.stats.setIfInBounds st (((sv / 128) * 128) ^^^ nl) })
    else
      (sv / 128, { s with a := a1, stats := s.stats.setIfInBounds st (((sv / 128) * 128) ^^^ nm) })
  else (sv / 128, { s with a := a1 })

end LJT.Arith
