import LJT.Gen.Src
/-! The lossy sample path for components that are neither subsampled nor colour-converted
(src/jcdctmgr.c convsamp / compute_reciprocal / quantize, src/jfdctint.c jpeg_fdct_islow,
src/jddctmgr.c multiplier table, src/jidctint.c jpeg_idct_islow, src/jdmaster.c
prepare_range_limit_table, src/jcparam.c quality scaling, edge replication of
src/jcsample.c expand_right_edge and src/jcprepct.c expand_bottom_edge).

Blocks are lists of 64 integers in natural order.  Right shifts of the C code are floor
divisions by the power of two (arithmetic shift), which is what `Int./` computes for a
positive divisor. -/
namespace LJT.DCT
open LJT.Gen.Src

/-- `DESCALE(x, n)` = `RIGHT_SHIFT(x + (1 << (n-1)), n)` -/
def descale (x : Int) (n : Nat) : Int := (x + 2 ^ (n - 1)) / 2 ^ n

/-- one 1-D pass of `jpeg_fdct_islow`; `first` = row pass -/
def fdct1d (first : Bool) (P : Nat) : List Int → List Int
  | [d0, d1, d2, d3, d4, d5, d6, d7] =>
    let tmp0 := d0 + d7; let tmp7 := d0 - d7
    let tmp1 := d1 + d6; let tmp6 := d1 - d6
    let tmp2 := d2 + d5; let tmp5 := d2 - d5
    let tmp3 := d3 + d4; let tmp4 := d3 - d4
    let tmp10 := tmp0 + tmp3; let tmp13 := tmp0 - tmp3
    let tmp11 := tmp1 + tmp2; let tmp12 := tmp1 - tmp2
    let sh := if first then f_CONST_BITS8 - P else f_CONST_BITS8 + P
    let o0 := if first then (tmp10 + tmp11) * 2 ^ P else descale (tmp10 + tmp11) P
    let o4 := if first then (tmp10 - tmp11) * 2 ^ P else descale (tmp10 - tmp11) P
    let z1 := (tmp12 + tmp13) * f_FIX_0_541196100
    let o2 := descale (z1 + tmp13 * f_FIX_0_765366865) sh
    let o6 := descale (z1 + tmp12 * (- f_FIX_1_847759065)) sh
    let y1 := tmp4 + tmp7; let y2 := tmp5 + tmp6
    let y3 := tmp4 + tmp6; let y4 := tmp5 + tmp7
    let z5 := (y3 + y4) * f_FIX_1_175875602
    let t4 := tmp4 * f_FIX_0_298631336
    let t5 := tmp5 * f_FIX_2_053119869
    let t6 := tmp6 * f_FIX_3_072711026
    let t7 := tmp7 * f_FIX_1_501321110
    let w1 := y1 * (- f_FIX_0_899976223)
    let w2 := y2 * (- f_FIX_2_562915447)
    let w3 := y3 * (- f_FIX_1_961570560) + z5
    let w4 := y4 * (- f_FIX_0_390180644) + z5
    [o0, descale (t7 + w1 + w4) sh, o2, descale (t6 + w2 + w3) sh,
     o4, descale (t5 + w2 + w4) sh, o6, descale (t4 + w1 + w3) sh]
  | _ => []

def rows (b : List Int) : List (List Int) :=
  (List.range 8).map (fun r => (List.range 8).map (fun c => b.getD (r * 8 + c) 0))
def transpose8 (m : List (List Int)) : List (List Int) :=
  (List.range 8).map (fun c => m.map (fun r => r.getD c 0))

/-- `jpeg_fdct_islow` (P = PASS1_BITS: 2 for 8-bit, 1 for 12-bit samples) -/
def fdctIslow (P : Nat) (b : List Int) : List Int :=
  let p1 := (rows b).map (fdct1d true P)
  let p2 := (transpose8 p1).map (fdct1d false P)
  (transpose8 p2).flatten

def pass1Bits (prec : Nat) : Nat := if prec ≤ 8 then f_PASS1_BITS8 else f_PASS1_BITS12
def ipass1Bits (prec : Nat) : Nat := if prec ≤ 8 then i_PASS1_BITS8 else i_PASS1_BITS12
def maxSample (prec : Nat) : Int := if prec ≤ 8 then 255 else 4095
def center (prec : Nat) : Int := if prec ≤ 8 then 128 else 2048

/-- `compute_reciprocal` for word size `W` (16 with SIMD, 32 without):
(reciprocal, correction, shift) as stored in the divisor table -/
def computeReciprocal (W d : Nat) : Nat × Nat × Int :=
  if d = 1 then (1, 0, - (W : Int))
  else if d > 65535 then (0, 0, 0)
  else
    let b := Nat.log2 d
    let r := W + b
    let fq := 2 ^ r / d
    let fr := 2 ^ r % d
    if fr = 0 then ((fq / 2) % 2 ^ W, (d / 2) % 2 ^ W, ((r - 1 : Nat) : Int) - W)
    else if fr ≤ d / 2 then (fq % 2 ^ W, (d / 2 + 1) % 2 ^ W, (r : Int) - W)
    else ((fq + 1) % 2 ^ W, (d / 2) % 2 ^ W, (r : Int) - W)

/-- the reciprocal path of `quantize` for a non-negative magnitude -/
def quantMag (W : Nat) (t : Nat × Nat × Int) (a : Nat) : Nat :=
  let product := ((a + t.2.1) * t.1) % 2 ^ (2 * W)
  product / 2 ^ (t.2.2 + W).toNat

/-- `quantize` (8-bit samples): sign-magnitude, multiply by the reciprocal -/
def quantize8 (W : Nat) (d : Nat) (w : Int) : Int :=
  let t := computeReciprocal W d
  if w < 0 then - (quantMag W t w.natAbs : Int) else (quantMag W t w.natAbs : Int)

/-- `quantize` (12-bit samples): plain division with `DIVIDE_BY` -/
def quantize12 (d : Nat) (w : Int) : Int :=
  let a := w.natAbs + d / 2
  let m : Nat := if a ≥ d then a / d else 0
  if w < 0 then - (m : Int) else m

/-- the value every quantiser is supposed to compute: round `|w| / d` to nearest, ties up -/
def roundDiv (d : Nat) (w : Int) : Int :=
  let m : Nat := (w.natAbs + d / 2) / d
  if w < 0 then - (m : Int) else m

/-- divisor of coefficient `k` for the accurate integer DCT: `quantval << 3` -/
def quantizeCoef (prec W : Nat) (q : Nat) (w : Int) : Int :=
  if prec ≤ 8 then quantize8 W (q * 8) w else quantize12 (q * 8) w

/-- `convsamp` + `jpeg_fdct_islow` + `quantize` of one block of samples -/
def forwardBlock (prec W : Nat) (q : List Nat) (samples : List Int) : List Int :=
  let ws := fdctIslow (pass1Bits prec) (samples.map (· - center prec))
  (List.range 64).map (fun k => quantizeCoef prec W (q.getD k 1) (ws.getD k 0))

/-- the post-IDCT range-limit table, `range_limit[x & RANGE_MASK]` with `range_limit` =
`sample_range_limit + CENTERJSAMPLE` -/
def rangeLimit (prec : Nat) (x : Int) : Int :=
  let M := maxSample prec + 1
  let C := center prec
  let m := x % (4 * M)
  if m < C then m + C
  else if m < 2 * M then M - 1
  else if m < 4 * M - C then 0
  else m - (4 * M - C)

/-- general path of the column pass of `jpeg_idct_islow`: raw coefficients `c`, multipliers `q` -/
def idctColGen (P : Nat) (c q : List Int) : List Int :=
  match c, q with
  | [c0, c1, c2, c3, c4, c5, c6, c7], [q0, q1, q2, q3, q4, q5, q6, q7] =>
      let z2 := c2 * q2; let z3 := c6 * q6
      let z1 := (z2 + z3) * i_FIX_0_541196100
      let tmp2 := z1 + z3 * (- i_FIX_1_847759065)
      let tmp3 := z1 + z2 * i_FIX_0_765366865
      let y2 := c0 * q0; let y3 := c4 * q4
      let tmp0 := (y2 + y3) * 2 ^ i_CONST_BITS8
      let tmp1 := (y2 - y3) * 2 ^ i_CONST_BITS8
      let tmp10 := tmp0 + tmp3; let tmp13 := tmp0 - tmp3
      let tmp11 := tmp1 + tmp2; let tmp12 := tmp1 - tmp2
      let t0 := c7 * q7; let t1 := c5 * q5; let t2 := c3 * q3; let t3 := c1 * q1
      let w1 := t0 + t3; let w2 := t1 + t2; let w3 := t0 + t2; let w4 := t1 + t3
      let z5 := (w3 + w4) * i_FIX_1_175875602
      let u0 := t0 * i_FIX_0_298631336
      let u1 := t1 * i_FIX_2_053119869
      let u2 := t2 * i_FIX_3_072711026
      let u3 := t3 * i_FIX_1_501321110
      let v1 := w1 * (- i_FIX_0_899976223)
      let v2 := w2 * (- i_FIX_2_562915447)
      let v3 := w3 * (- i_FIX_1_961570560) + z5
      let v4 := w4 * (- i_FIX_0_390180644) + z5
      let r0 := u0 + (v1 + v3); let r1 := u1 + (v2 + v4)
      let r2 := u2 + (v2 + v3); let r3 := u3 + (v1 + v4)
      let sh := i_CONST_BITS8 - P
      [descale (tmp10 + r3) sh, descale (tmp11 + r2) sh, descale (tmp12 + r1) sh, descale (tmp13 + r0) sh,
       descale (tmp13 - r0) sh, descale (tmp12 - r1) sh, descale (tmp11 - r2) sh, descale (tmp10 - r3) sh]
  | _, _ => []

/-- column pass with the zero-AC shortcut -/
def idctCol (P : Nat) (c q : List Int) : List Int :=
  match c, q with
  | [c0, c1, c2, c3, c4, c5, c6, c7], [q0, _, _, _, _, _, _, _] =>
    if c1 = 0 ∧ c2 = 0 ∧ c3 = 0 ∧ c4 = 0 ∧ c5 = 0 ∧ c6 = 0 ∧ c7 = 0 then
      let dc := c0 * q0 * 2 ^ P
      [dc, dc, dc, dc, dc, dc, dc, dc]
    else idctColGen P c q
  | _, _ => []

/-- general path of the row pass of `jpeg_idct_islow` on one workspace row, before range limiting -/
def idctRowGen (P : Nat) : List Int → List Int
  | [w0, w1, w2, w3, w4, w5, w6, w7] =>
      let z2 := w2; let z3 := w6
      let z1 := (z2 + z3) * i_FIX_0_541196100
      let tmp2 := z1 + z3 * (- i_FIX_1_847759065)
      let tmp3 := z1 + z2 * i_FIX_0_765366865
      let tmp0 := (w0 + w4) * 2 ^ i_CONST_BITS8
      let tmp1 := (w0 - w4) * 2 ^ i_CONST_BITS8
      let tmp10 := tmp0 + tmp3; let tmp13 := tmp0 - tmp3
      let tmp11 := tmp1 + tmp2; let tmp12 := tmp1 - tmp2
      let t0 := w7; let t1 := w5; let t2 := w3; let t3 := w1
      let x1 := t0 + t3; let x2 := t1 + t2; let x3 := t0 + t2; let x4 := t1 + t3
      let z5 := (x3 + x4) * i_FIX_1_175875602
      let u0 := t0 * i_FIX_0_298631336
      let u1 := t1 * i_FIX_2_053119869
      let u2 := t2 * i_FIX_3_072711026
      let u3 := t3 * i_FIX_1_501321110
      let v1 := x1 * (- i_FIX_0_899976223)
      let v2 := x2 * (- i_FIX_2_562915447)
      let v3 := x3 * (- i_FIX_1_961570560) + z5
      let v4 := x4 * (- i_FIX_0_390180644) + z5
      let r0 := u0 + (v1 + v3); let r1 := u1 + (v2 + v4)
      let r2 := u2 + (v2 + v3); let r3 := u3 + (v1 + v4)
      let sh := i_CONST_BITS8 + P + 3
      [descale (tmp10 + r3) sh, descale (tmp11 + r2) sh, descale (tmp12 + r1) sh, descale (tmp13 + r0) sh,
       descale (tmp13 - r0) sh, descale (tmp12 - r1) sh, descale (tmp11 - r2) sh, descale (tmp10 - r3) sh]
  | _ => []

/-- row pass with the zero-AC shortcut (`NO_ZERO_ROW_TEST` is not defined) -/
def idctRow (P : Nat) (w : List Int) : List Int :=
  match w with
  | [w0, w1, w2, w3, w4, w5, w6, w7] =>
    if w1 = 0 ∧ w2 = 0 ∧ w3 = 0 ∧ w4 = 0 ∧ w5 = 0 ∧ w6 = 0 ∧ w7 = 0 then
      let dc := descale w0 (P + 3)
      [dc, dc, dc, dc, dc, dc, dc, dc]
    else idctRowGen P w
  | _ => []

/-- `jpeg_idct_islow`: dequantise, two passes, range-limit -/
def idctIslow (prec : Nat) (coef : List Int) (q : List Nat) : List Int :=
  let P := ipass1Bits prec
  let qi : List Int := q.map (fun (x : Nat) => (x : Int))
  let ws := List.zipWith (idctCol P) (transpose8 (rows coef)) (transpose8 (rows qi))   -- 8 columns
  let out := (transpose8 ws).map (idctRow P)
  out.flatten.map (rangeLimit prec)

/-- `jpeg_quality_scaling` -/
def qualityScaling (quality : Int) : Int :=
  let q := if quality ≤ 0 then 1 else if quality > 100 then 100 else quality
  if q < 50 then 5000 / q else 200 - q * 2

/-- `jpeg_add_quant_table` -/
def scaleTable (basic : List Nat) (scale : Int) (forceBaseline : Bool) : List Nat :=
  basic.map (fun (b : Nat) =>
    let t : Int := ((b : Int) * scale + 50) / 100
    let t := if t ≤ 0 then 1 else t
    let t := if t > 32767 then 32767 else t
    let t := if forceBaseline && decide (t > 255) then 255 else t
    t.toNat)

/-- a component plane `w x h` (`at_ x y`) cut into 8x8 blocks with the right column and bottom
row replicated (`expand_right_edge`, `expand_bottom_edge`) -/
def blockOf (w h : Nat) (at_ : Nat → Nat → Int) (by_ bx : Nat) : List Int :=
  (List.range 64).map (fun k => at_ (min (bx * 8 + k % 8) (w - 1)) (min (by_ * 8 + k / 8) (h - 1)))

/-- compress + decompress of one block -/
def roundtripBlock (prec W : Nat) (q : List Nat) (samples : List Int) : List Int :=
  idctIslow prec (forwardBlock prec W q samples) q

end LJT.DCT
