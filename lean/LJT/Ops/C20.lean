import LJT.Ops.Util
import LJT.Model.TJSize
namespace LJT.Ops
open LJT.TJ

def legacyUL (v : Nat) : Nat := if v = 0 then ULL - 1 else v
/-- legacy `int` wrappers return -1 on error -/
def legacyInt (v : Nat) : Int := if v = 0 then -1 else v

def opC20 : List String → Option String
  | ["yuvgeom", w, h, al, ss, st] => do
    let w ← int? w; let h ← int? h; let al ← int? al; let ss ← int? ss; let st ← int? st
    let pw := [0, 1, 2].map (fun i => yuvPlaneWidth i w ss)
    let ph := [0, 1, 2].map (fun i => yuvPlaneHeight i h ss)
    let ps := [0, 1, 2].map (fun i => yuvPlaneSize i w st h ss)
    let yb := yuvBufSize w al h ss
    some s!"{joinNat pw} {joinNat ph} {joinNat ps} {yb} | {legacyInt (yuvPlaneWidth 1 w ss)} {legacyInt (yuvPlaneHeight 1 h ss)} {legacyUL yb} {legacyUL (yuvPlaneSize 1 w st h ss)}"
  | ["jbuf", w, h, ss] => do
    let w ← int? w; let h ← int? h; let ss ← int? ss
    let a := jpegBufSize w h ss
    let b := if ss < 0 then ULL - 1 else legacyUL a
    some s!"{a} {b} {legacyBUFSIZE w h}"
  | ["scaled", d] => do
    let d ← nat? d
    some (joinNat (Gen.tjScalingFactors.map (fun (n, m) => scaled d n m)))
  | _ => none

end LJT.Ops
