/* C19 operations: nbits, genopt, cderive, dderive, hrt */
#include "exec_common.h"
#include "jchuff.h"
#include "jdhuff.h"

extern const unsigned char jpeg_nbits_table[65536];

static int parse_tbl(toks_t *t, int at, JHUFF_TBL *h)
{
  int i, nv;
  if (t->n < at + 17) return 0;
  memset(h, 0, sizeof(*h));
  for (i = 1; i <= 16; i++) h->bits[i] = (UINT8)tl(t, at + i - 1);
  nv = (int)tl(t, at + 16);
  for (i = 0; i < nv && i < 256; i++) h->huffval[i] = (UINT8)tl(t, at + 17 + i);
  return 1;
}

static int op_nbits(toks_t *t)
{
  unsigned x = (unsigned)tl(t, 1);
  int tab = jpeg_nbits_table[x & 0xFFFF];
  int clz = x ? 32 - __builtin_clz(x) : 0;
  int spec = 0; unsigned y = x;
  while (y) { spec++; y >>= 1; }
  printf("R %d %d %d\n", tab, tab, clz);
  if (tab == spec && clz == spec) printf("O ok\n");
  else printf("O fail nbits(%u)=%d/%d expected %d\n", x, tab, clz, spec);
  return 1;
}

/* a private copy of jchuff.c, compiled with the verification guard on and its global names changed, so that the intermediate array
   codesize[] of jpeg_gen_optimal_table() can be read through the LJT_VERIF hook (a no-op in the library proper) */
#define LJT_VERIF
void (*ljt_verif_codesize_hook) (const int *codesize, int n) = NULL;
#define jpeg_make_c_derived_tbl vh_make_c_derived_tbl
#define jpeg_gen_optimal_table vh_gen_optimal_table
#define jinit_huff_encoder vh_jinit_huff_encoder
#define c_derived_tbl vh_c_derived_tbl          /* jchuff.h has no include guard and is already included above */
#include "jchuff.c"
#undef c_derived_tbl
#undef jpeg_make_c_derived_tbl
#undef jpeg_gen_optimal_table
#undef jinit_huff_encoder
#undef LJT_VERIF
static int gencs_cs[257], gencs_n;
static void gencs_grab(const int *cs, int n) { gencs_n = n; memcpy(gencs_cs, cs, sizeof(int) * (size_t)n); }

/* gencs <sym count>* : codesize[0 .. num_nz_symbols-1] of the real merge loop */
static int op_gencs(toks_t *t)
{
  struct jpeg_compress_struct c; my_err_t e; long freq[257]; JHUFF_TBL h; int i;
  memset(freq, 0, sizeof(freq));
  for (i = 1; i + 1 < t->n; i += 2) { long s = tl(t, i); if (s >= 0 && s < 257) freq[s] = tl(t, i + 1); }
  memset(&h, 0, sizeof(h));
  c.err = my_err_init(&e);
  if (setjmp(e.jb)) { printf("R err %d\n", e.code); ljt_verif_codesize_hook = NULL; jpeg_destroy_compress(&c); return 1; }
  jpeg_create_compress(&c);
  gencs_n = -1; ljt_verif_codesize_hook = gencs_grab;
  vh_gen_optimal_table(&c, &h, freq);
  ljt_verif_codesize_hook = NULL;
  if (gencs_n < 0) { printf("R skip nohook\n"); printf("O fail gencs: the LJT_VERIF hook of jpeg_gen_optimal_table was not reached\n"); jpeg_destroy_compress(&c); return 1; }
  printf("R cs");
  for (i = 0; i < gencs_n; i++) printf(" %d", gencs_cs[i]);
  printf("\n");
  /* the property's own clause on the real array: the pseudo-symbol (last slot) is on the deepest level */
  for (i = 0; i < gencs_n; i++) if (gencs_cs[i] > gencs_cs[gencs_n - 1]) { printf("O fail gencs: symbol slot %d has Huffman depth %d, the pseudo-symbol only %d\n", i, gencs_cs[i], gencs_cs[gencs_n - 1]); jpeg_destroy_compress(&c); return 1; }
  printf("O ok\n");
  jpeg_destroy_compress(&c);
  return 1;
}

static int op_genopt(toks_t *t)
{
  struct jpeg_compress_struct c;
  my_err_t e;
  long freq[257], freq0[257];
  JHUFF_TBL h;
  int i, total = 0, nnz = 0;
  memset(freq, 0, sizeof(freq));
  for (i = 1; i + 1 < t->n; i += 2) {
    long s = tl(t, i);
    if (s >= 0 && s < 257) freq[s] = tl(t, i + 1);
  }
  memcpy(freq0, freq, sizeof(freq));
  memset(&h, 0, sizeof(h));
  c.err = my_err_init(&e);
  if (setjmp(e.jb)) {
    printf("R err %d\n", e.code);
    jpeg_destroy_compress(&c);
    return 1;
  }
  jpeg_create_compress(&c);
  jpeg_gen_optimal_table(&c, &h, freq);
  for (i = 1; i <= 16; i++) total += h.bits[i];
  printf("R ok bits");
  for (i = 1; i <= 16; i++) printf(" %d", h.bits[i]);
  printf(" vals");
  for (i = 0; i < total && i < 256; i++) printf(" %d", h.huffval[i]);
  printf("\n");
  /* property oracle, evaluated on the real output */
  {
    int seen[256], lmax = 0, bad = 0; unsigned long kraft = 0; const char *why = "";
    memset(seen, 0, sizeof(seen));
    for (i = 0; i < 256; i++) if (freq0[i]) nnz++;
    if (h.bits[0] != 0 && nnz > 0) { bad = 1; why = "bits[0]!=0"; }
    if (total != nnz) { bad = 1; why = "symbol-count"; }
    for (i = 0; i < total && i < 256; i++) {
      if (seen[h.huffval[i]]) { bad = 1; why = "duplicate-symbol"; }
      seen[h.huffval[i]] = 1;
      if (!freq0[h.huffval[i]]) { bad = 1; why = "zero-frequency-symbol-coded"; }
    }
    for (i = 0; i < 256; i++) if (freq0[i] && !seen[i]) { bad = 1; why = "symbol-without-code"; }
    for (i = 1; i <= 16; i++) if (h.bits[i]) lmax = i;
    for (i = 1; i <= 16; i++) kraft += (unsigned long)h.bits[i] << (16 - i);
    if (lmax && kraft > 65536UL - (1UL << (16 - lmax))) { bad = 1; why = "kraft/all-ones"; }
    if (!bad && nnz > 0) {
      /* the table must be accepted by the encoder-side validator */
      c_derived_tbl *d = NULL;
      c.ac_huff_tbl_ptrs[0] = &h;
      if (setjmp(e.jb)) { bad = 1; why = "rejected-by-make_c_derived_tbl"; }
      else jpeg_make_c_derived_tbl(&c, FALSE, 0, &d);
      c.ac_huff_tbl_ptrs[0] = NULL;
    }
    if (bad) printf("O fail genopt %s nnz=%d total=%d\n", why, nnz, total);
    else printf("O ok\n");
  }
  jpeg_destroy_compress(&c);
  return 1;
}

static int op_cderive(toks_t *t)
{
  struct jpeg_compress_struct c;
  my_err_t e;
  JHUFF_TBL h;
  c_derived_tbl *d = NULL;
  int isDC = (int)tl(t, 1), ll = (int)tl(t, 2), i;
  if (!parse_tbl(t, 3, &h)) return 0;
  c.err = my_err_init(&e);
  if (setjmp(e.jb)) {
    printf("R err %d\n", e.code);
    c.dc_huff_tbl_ptrs[0] = c.ac_huff_tbl_ptrs[0] = NULL;
    jpeg_destroy_compress(&c);
    return 1;
  }
  jpeg_create_compress(&c);
  c.master->lossless = ll;
  if (isDC) c.dc_huff_tbl_ptrs[0] = &h; else c.ac_huff_tbl_ptrs[0] = &h;
  jpeg_make_c_derived_tbl(&c, isDC, 0, &d);
  printf("R ok co");
  for (i = 0; i < 256; i++) printf(" %u", d->ehufco[i]);
  printf(" si");
  for (i = 0; i < 256; i++) printf(" %d", d->ehufsi[i]);
  printf("\n");
  c.dc_huff_tbl_ptrs[0] = c.ac_huff_tbl_ptrs[0] = NULL;
  jpeg_destroy_compress(&c);
  return 1;
}

static int op_dderive(toks_t *t)
{
  struct jpeg_decompress_struct c;
  my_err_t e;
  JHUFF_TBL h;
  d_derived_tbl *d = NULL;
  int isDC = (int)tl(t, 1), ll = (int)tl(t, 2), i;
  if (!parse_tbl(t, 3, &h)) return 0;
  c.err = my_err_init(&e);
  if (setjmp(e.jb)) {
    printf("R err %d\n", e.code);
    c.dc_huff_tbl_ptrs[0] = c.ac_huff_tbl_ptrs[0] = NULL;
    jpeg_destroy_decompress(&c);
    return 1;
  }
  jpeg_create_decompress(&c);
  c.master->lossless = ll;
  if (isDC) c.dc_huff_tbl_ptrs[0] = &h; else c.ac_huff_tbl_ptrs[0] = &h;
  jpeg_make_d_derived_tbl(&c, isDC, 0, &d);
  printf("R ok maxcode");
  for (i = 1; i <= 17; i++) printf(" %ld", (long)d->maxcode[i]);
  printf(" valoffset");
  for (i = 1; i <= 16; i++) printf(" %ld", h.bits[i] ? (long)d->valoffset[i] : 0L);
  printf(" lookup");
  for (i = 0; i < 256; i++) printf(" %d", d->lookup[i]);
  printf("\n");
  c.dc_huff_tbl_ptrs[0] = c.ac_huff_tbl_ptrs[0] = NULL;
  jpeg_destroy_decompress(&c);
  return 1;
}

/* encode every coded symbol with the real encoder table, decode it with the real
 * decoder (HUFF_DECODE / jpeg_huff_decode): report symbols that do not come back */
static boolean hrt_fill(j_decompress_ptr cinfo) { (void)cinfo; return FALSE; }

static int op_hrt(toks_t *t)
{
  struct jpeg_compress_struct cc;
  struct jpeg_decompress_struct dc;
  my_err_t e1, e2;
  JHUFF_TBL h;
  c_derived_tbl *cd = NULL;
  d_derived_tbl *dd = NULL;
  struct jpeg_source_mgr src;
  int isDC = (int)tl(t, 1), ll = (int)tl(t, 2), s, nbad = 0, bad[256], ok = 1;
  if (!parse_tbl(t, 3, &h)) return 0;
  cc.err = my_err_init(&e1);
  dc.err = my_err_init(&e2);
  jpeg_create_compress(&cc);
  jpeg_create_decompress(&dc);
  cc.master->lossless = ll; dc.master->lossless = ll;
  if (isDC) { cc.dc_huff_tbl_ptrs[0] = &h; dc.dc_huff_tbl_ptrs[0] = &h; }
  else { cc.ac_huff_tbl_ptrs[0] = &h; dc.ac_huff_tbl_ptrs[0] = &h; }
  if (!setjmp(e1.jb)) jpeg_make_c_derived_tbl(&cc, isDC, 0, &cd);
  if (!setjmp(e2.jb)) jpeg_make_d_derived_tbl(&dc, isDC, 0, &dd);
  if (e1.code || e2.code) {
    printf("R err %d\n", e1.code ? e1.code : e2.code);
    /* the two validators must agree, except that the decoder accepts any AC symbol
       and duplicated symbols (it never indexes by symbol) */
    if (e1.code && !e2.code) printf("O ok\n");
    else if (!e1.code && e2.code) printf("O fail hrt table accepted by jpeg_make_c_derived_tbl but rejected by jpeg_make_d_derived_tbl (err %d)\n", e2.code);
    else printf("O ok\n");
    ok = 0;
  } else {
    memset(&src, 0, sizeof(src));
    src.fill_input_buffer = hrt_fill;
    dc.src = &src;
    for (s = 0; s < 256; s++) {
      unsigned char buf[24];
      unsigned code = cd->ehufco[s]; int size = cd->ehufsi[s], k, nb = 0, result = -1;
      unsigned long acc;
      bitread_working_state br_state;
      register bit_buf_type get_buffer = 0;
      register int bits_left = 0;
      if (!size) continue;
      /* code, then the 3 bits 1 0 1, then zero padding; stuff 0x00 after 0xFF */
      acc = ((unsigned long)code << 3 | 5UL) << (32 - size - 3);
      memset(buf, 0, sizeof(buf));
      for (k = 0; k < 4; k++) {
        unsigned char b = (unsigned char)(acc >> (24 - 8 * k));
        buf[nb++] = b;
        if (b == 0xFF) buf[nb++] = 0;
      }
      br_state.cinfo = &dc;
      br_state.next_input_byte = buf;
      br_state.bytes_in_buffer = sizeof(buf);
      dc.unread_marker = 0;
      HUFF_DECODE(result, br_state, dd, goto fail, lab);
      {
        int nxt;
        CHECK_BIT_BUFFER(br_state, 3, goto fail);
        nxt = GET_BITS(3);
        if (result != s || nxt != 5) bad[nbad++] = s;
      }
      continue;
fail:
      bad[nbad++] = s;
    }
    printf("R ok bad");
    for (s = 0; s < nbad; s++) printf(" %d", bad[s]);
    printf("\n");
    if (nbad) printf("O fail huffman enc/dec not inverse for %d symbols (first %d)\n", nbad, bad[0]);
    else printf("O ok\n");
  }
  cc.dc_huff_tbl_ptrs[0] = cc.ac_huff_tbl_ptrs[0] = NULL;
  dc.dc_huff_tbl_ptrs[0] = dc.ac_huff_tbl_ptrs[0] = NULL;
  dc.src = NULL;
  jpeg_destroy_compress(&cc);
  jpeg_destroy_decompress(&dc);
  (void)ok;
  return 1;
}

static int dispatch_c19(toks_t *t)
{
  const char *op = t->tok[0];
  if (!strcmp(op, "nbits")) return op_nbits(t);
  if (!strcmp(op, "gencs")) return op_gencs(t);
  if (!strcmp(op, "genopt")) return op_genopt(t);
  if (!strcmp(op, "cderive")) return op_cderive(t);
  if (!strcmp(op, "dderive")) return op_dderive(t);
  if (!strcmp(op, "hrt")) return op_hrt(t);
  return 0;
}
