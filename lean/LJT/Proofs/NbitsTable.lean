import LJT.Proofs.Nbits.C0
import LJT.Proofs.Nbits.C1
import LJT.Proofs.Nbits.C2
import LJT.Proofs.Nbits.C3
import LJT.Proofs.Nbits.C4
import LJT.Proofs.Nbits.C5
import LJT.Proofs.Nbits.C6
import LJT.Proofs.Nbits.C7
import LJT.Proofs.Nbits.S0
import LJT.Proofs.Nbits.S1
import LJT.Proofs.Nbits.S2
import LJT.Proofs.Nbits.S3
import LJT.Proofs.Nbits.S4
import LJT.Proofs.Nbits.S5
import LJT.Proofs.Nbits.S6
import LJT.Proofs.Nbits.S7
/-! Every entry of both copies of `jpeg_nbits_table` equals floor(log2 x)+1 (0 for 0). -/
namespace LJT
theorem nbitsTbl_correct (i : Nat) (h : i < 65536) : nbitsTbl i = nbitsSpec i := by
  by_cases h0 : i < 8192
  · exact checkRange_sound _ _ _ _ _ nbits_chunk_C0 i (by omega) (by omega)
  by_cases h1 : i < 16384
  · exact checkRange_sound _ _ _ _ _ nbits_chunk_C1 i (by omega) (by omega)
  by_cases h2 : i < 24576
  · exact checkRange_sound _ _ _ _ _ nbits_chunk_C2 i (by omega) (by omega)
  by_cases h3 : i < 32768
  · exact checkRange_sound _ _ _ _ _ nbits_chunk_C3 i (by omega) (by omega)
  by_cases h4 : i < 40960
  · exact checkRange_sound _ _ _ _ _ nbits_chunk_C4 i (by omega) (by omega)
  by_cases h5 : i < 49152
  · exact checkRange_sound _ _ _ _ _ nbits_chunk_C5 i (by omega) (by omega)
  by_cases h6 : i < 57344
  · exact checkRange_sound _ _ _ _ _ nbits_chunk_C6 i (by omega) (by omega)
  exact checkRange_sound _ _ _ _ _ nbits_chunk_C7 i (by omega) (by omega)

theorem nbitsTblSimd_correct (i : Nat) (h : i < 65536) : nbitsTblSimd i = nbitsSpec i := by
  by_cases h0 : i < 8192
  · exact checkRange_sound _ _ _ _ _ nbits_chunk_S0 i (by omega) (by omega)
  by_cases h1 : i < 16384
  · exact checkRange_sound _ _ _ _ _ nbits_chunk_S1 i (by omega) (by omega)
  by_cases h2 : i < 24576
  · exact checkRange_sound _ _ _ _ _ nbits_chunk_S2 i (by omega) (by omega)
  by_cases h3 : i < 32768
  · exact checkRange_sound _ _ _ _ _ nbits_chunk_S3 i (by omega) (by omega)
  by_cases h4 : i < 40960
  · exact checkRange_sound _ _ _ _ _ nbits_chunk_S4 i (by omega) (by omega)
  by_cases h5 : i < 49152
  · exact checkRange_sound _ _ _ _ _ nbits_chunk_S5 i (by omega) (by omega)
  by_cases h6 : i < 57344
  · exact checkRange_sound _ _ _ _ _ nbits_chunk_S6 i (by omega) (by omega)
  exact checkRange_sound _ _ _ _ _ nbits_chunk_S7 i (by omega) (by omega)

end LJT
