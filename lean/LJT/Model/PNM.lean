/-! PPM/PGM image files as read by `tj3LoadImage8/12/16` (src/turbojpeg-mp.c, src/rdppm.c)
and written by `tj3SaveImage8/12/16` (src/wrppm.c), for the grayscale and RGB-family pixel
formats.  Files are lists of bytes.  CMYK (floating-point conversion, src/cmyk.h), BMP, GIF
and Targa are not modelled. -/
namespace LJT.PNM

inductive Err | eof | nonnumeric | outofrange | notppm | toobig | badcs | nodata
deriving Repr, DecidableEq

def Err.name : Err → String
  | .eof => "eof" | .nonnumeric => "nonnumeric" | .outofrange => "outofrange" | .notppm => "notppm"
  | .toobig => "toobig" | .badcs => "badcs" | .nodata => "nodata"

/-- `pbm_getc`: next character, a comment counts as its terminating newline; `none` = EOF -/
def pbmGetc : List Nat → Option Nat × List Nat
  | [] => (none, [])
  | c :: r =>
    if c = 35 then
      match r.dropWhile (· ≠ 10) with
      | [] => (none, [])
      | n :: t => (some n, t)
    else (some c, r)

def isWs (c : Nat) : Bool := c = 32 || c = 9 || c = 10 || c = 13
def isDigit (c : Nat) : Bool := 48 ≤ c && c ≤ 57

/-- the digit loop of `read_pbm_integer`; swallows the character that ends the number -/
def readDigits (maxval : Nat) : Nat → Nat → List Nat → Except Err (Nat × List Nat)
  | 0, val, s => .ok (val, s)
  | fuel + 1, val, s =>
    match pbmGetc s with
    | (some c, r) =>
      if isDigit c then
        let v := val * 10 + (c - 48)
        if v > maxval then .error .outofrange else readDigits maxval fuel v r
      else .ok (val, r)
    | (none, r) => .ok (val, r)

def skipWs : Nat → List Nat → Except Err (Nat × List Nat)
  | 0, _ => .error .eof
  | fuel + 1, s =>
    match pbmGetc s with
    | (none, _) => .error .eof
    | (some c, r) => if isWs c then skipWs fuel r else .ok (c, r)

/-- `read_pbm_integer` -/
def readInt (maxval : Nat) (s : List Nat) : Except Err (Nat × List Nat) :=
  match skipWs (s.length + 1) s with
  | .error e => .error e
  | .ok (c, r) =>
    if !isDigit c then .error .nonnumeric
    else if c - 48 > maxval then .error .outofrange
    else readDigits maxval (r.length + 1) (c - 48) r

/-- the `rescale[]` table: `(val * (2^P - 1) + maxval / 2) / maxval` -/
def rescale (P maxval v : Nat) : Nat := (v * (2 ^ P - 1) + maxval / 2) / maxval

/-- text samples -/
def readText (P maxval : Nat) : Nat → List Nat → Except Err (List Nat)
  | 0, _ => .ok []
  | n + 1, s =>
    match readInt maxval s with
    | .error e => .error e
    | .ok (v, r) =>
      match readText P maxval n r with
      | .error e => .error e
      | .ok l => .ok (rescale P maxval v :: l)

/-- one-byte sample: the zero-filled part of the rescale table absorbs bytes above maxval -/
def byteSample (P maxval b : Nat) : Nat := if b ≤ maxval then rescale P maxval b else 0

def words : List Nat → List Nat
  | hi :: lo :: r => (hi * 256 + lo) :: words r
  | _ => []

/-- raw rows: each row is read completely (`ReadOK` of `buffer_width` bytes) before its samples
are looked at; two-byte samples are range-checked, one-byte samples are not -/
def readRaw (P maxval rowSamples : Nat) (wide : Bool) : Nat → List Nat → Except Err (List Nat)
  | 0, _ => .ok []
  | h + 1, s =>
    let nb := if wide then rowSamples * 2 else rowSamples
    if s.length < nb then .error .eof else
    let row := s.take nb
    let vals := if wide then words row else row
    if wide ∧ vals.any (· > maxval) then .error .outofrange else
    match readRaw P maxval rowSamples wide h (s.drop nb) with
    | .error e => .error e
    | .ok l => .ok ((if wide then vals.map (rescale P maxval) else vals.map (byteSample P maxval)) ++ l)

structure Image where
  w : Nat
  h : Nat
  pf : Nat                 -- TurboJPEG pixel format of the result
  rows : List (List Int)   -- top-down unless bottomUp; `-1` = undefined padding component
deriving Repr, DecidableEq

/-- component offsets (red, green, blue, alpha or none) and pixel size of the RGB-family
pixel formats TJPF_RGB .. TJPF_ARGB -/
def pfLayout : Nat → Option (Nat × Nat × Nat × Option Nat × Nat)
  | 0 => some (0, 1, 2, none, 3)       -- RGB
  | 1 => some (2, 1, 0, none, 3)       -- BGR
  | 2 => some (0, 1, 2, none, 4)       -- RGBX
  | 3 => some (2, 1, 0, none, 4)       -- BGRX
  | 4 => some (3, 2, 1, none, 4)       -- XBGR
  | 5 => some (1, 2, 3, none, 4)       -- XRGB
  | 7 => some (0, 1, 2, some 3, 4)     -- RGBA
  | 8 => some (2, 1, 0, some 3, 4)     -- BGRA
  | 9 => some (3, 2, 1, some 0, 4)     -- ABGR
  | 10 => some (1, 2, 3, some 0, 4)    -- ARGB
  | _ => none

def mkPixel (lay : Nat × Nat × Nat × Option Nat × Nat) (P : Nat) (r g b : Nat) : List Int :=
  let (ri, gi, bi, ai, ps) := lay
  (List.range ps).map (fun i =>
    if i = ri then (r : Int) else if i = gi then (g : Int) else if i = bi then (b : Int)
    else if ai = some i then ((2 ^ P - 1 : Nat) : Int) else -1)

def chunk (n : Nat) : Nat → List α → List (List α)
  | 0, _ => []
  | k + 1, l => l.take n :: chunk n k (l.drop n)

def triples : List Nat → List (Nat × Nat × Nat)
  | r :: g :: b :: t => (r, g, b) :: triples t
  | _ => []

/-- effective `data_precision` for the three API flavours (`bits` = 8, 12, 16) -/
def effPrecision (bits prec : Nat) : Nat :=
  if bits = 8 then (if 2 ≤ prec ∧ prec ≤ 8 then prec else 8)
  else if bits - 3 ≤ prec ∧ prec ≤ bits then prec else bits

/-- `tj3LoadImage*` on a PPM/PGM file.  `pf`: requested pixel format (12 = TJPF_UNKNOWN here,
6 = gray; for 11 = CMYK only the outcome and the dimensions are modelled, the samples are not), `maxPixels` 0 = unlimited -/
def load (P : Nat) (pf : Nat) (maxPixels : Nat) (bottomUp : Bool) (file : List Nat) : Except Err Image :=
  match file with
  | [] => .error .nodata
  | 80 :: c :: s0 =>
    if c ≠ 50 ∧ c ≠ 51 ∧ c ≠ 53 ∧ c ≠ 54 then .error .notppm else
    match readInt 65535 s0 with
    | .error e => .error e
    | .ok (w, s1) =>
    match readInt 65535 s1 with
    | .error e => .error e
    | .ok (h, s2) =>
    match readInt 65535 s2 with
    | .error e => .error e
    | .ok (maxval, s3) =>
    if w = 0 ∨ h = 0 ∨ maxval = 0 then .error .notppm
    else if maxPixels ≠ 0 ∧ w * h > maxPixels then .error .toobig
    else
      let isGrayFile := c = 50 ∨ c = 53
      let isText := c = 50 ∨ c = 51
      -- colour space selection
      let pf' : Option Nat :=
        if isGrayFile then (if pf = 12 ∨ pf = 6 then some 6 else if (pfLayout pf).isSome ∨ pf = 11 then some pf else none)
        else (if pf = 12 then some 0 else if (pfLayout pf).isSome ∨ pf = 11 then some pf else none)
      match pf' with
      | none => .error .badcs
      | some pfo =>
        let spp := if isGrayFile then 1 else 3
        let n := w * h * spp
        let samples :=
          if isText then readText P maxval n s3
          else readRaw P maxval (w * spp) (decide (maxval > 255)) h s3
        match samples with
        | .error e => .error e
        | .ok vs =>
          let pixels : List (List Int) :=
            if pfo = 6 then vs.map (fun (v : Nat) => [(v : Int)])
            else
              let lay := (pfLayout pfo).getD (0, 1, 2, none, 3)
              if isGrayFile then vs.map (fun (v : Nat) => mkPixel lay P v v v)
              else (triples vs).map (fun (r, g, b) => mkPixel lay P r g b)
          let rows := (chunk w h pixels).map List.flatten
          .ok ⟨w, h, pfo, if bottomUp then rows.reverse else rows⟩
  | _ => .error .notppm

/-- decimal digits of a number, as `fprintf("%ld")` prints them -/
def decDigitsAux : Nat → Nat → List Nat → List Nat
  | 0, _, acc => acc
  | fuel + 1, n, acc =>
    if n < 10 then (48 + n) :: acc else decDigitsAux fuel (n / 10) ((48 + n % 10) :: acc)
def decDigits (n : Nat) : List Nat := decDigitsAux (n + 1) n []

def putSample (bits : Nat) (v : Nat) : List Nat :=
  if bits = 8 then [v % 256] else [(v / 256) % 256, v % 256]

/-- `tj3SaveImage*` to a `.ppm`/`.pgm` name: `rows` are the caller's rows, top-down unless
`bottomUp` -/
def save (P bits : Nat) (pf : Nat) (bottomUp : Bool) (w h : Nat) (rows : List (List Nat)) : Option (List Nat) :=
  let hdr (magic : Nat) := [80, magic, 10] ++ decDigits w ++ [32] ++ decDigits h ++ [10] ++ decDigits (2 ^ P - 1) ++ [10]
  let rs := if bottomUp then rows.reverse else rows
  if pf = 6 then
    some (hdr 53 ++ (rs.map (fun r => (r.take w).flatMap (putSample bits))).flatten)
  else
    match pfLayout pf with
    | none => none
    | some (ri, gi, bi, _, ps) =>
      some (hdr 54 ++ (rs.map (fun r =>
        (List.range w).flatMap (fun x =>
          putSample bits (r.getD (x * ps + ri) 0) ++ putSample bits (r.getD (x * ps + gi) 0) ++ putSample bits (r.getD (x * ps + bi) 0)))).flatten)

end LJT.PNM
