"""Shared machinery of ./check: scratch builds of /repo's working tree, Gen,
lake build, axiom audit, op-file correspondence runs, evidence and verdicts.

Nothing here is property specific; see vlib/props/Cxx.py."""
import fcntl, hashlib, json, os, random, re, shutil, subprocess, sys, tempfile, time

VERIF = os.path.dirname(os.path.dirname(os.path.abspath(__file__)))
REPO = os.environ.get("LJT_REPO", "/repo")
CACHE = os.path.join(VERIF, ".cache")
LEAN = os.path.join(VERIF, "lean")
DRIVER = os.path.join(LEAN, ".lake", "build", "bin", "ljt-driver")
NPROC = os.cpu_count() or 4

SAN_FLAGS = "-O1 -g -fno-omit-frame-pointer -fsanitize=address,undefined -fno-sanitize-recover=all"
ALLOWED_AXIOMS = {"propext", "Classical.choice", "Quot.sound"}
FORBIDDEN = ["sorry", "admit", "native_decide", "bv_decide", "implemented_by",
             "unsafe ", "maxHeartbeats 0", "ofReduceBool"]


def log(*a):
    print("[check]", *a, file=sys.stderr, flush=True)


def run(cmd, **kw):
    kw.setdefault("stdout", subprocess.PIPE)
    kw.setdefault("stderr", subprocess.STDOUT)
    kw.setdefault("text", True)
    return subprocess.run(cmd, **kw)


class Lock:
    """One build of the cache / Lean library at a time."""
    def __init__(self, name=".lock"):
        self.path = os.path.join(VERIF, name)
    def __enter__(self):
        self.f = open(self.path, "w")
        fcntl.flock(self.f, fcntl.LOCK_EX)
        return self
    def __exit__(self, *a):
        fcntl.flock(self.f, fcntl.LOCK_UN)
        self.f.close()


# --------------------------------------------------------------------------
# working-tree hash and scratch builds
# --------------------------------------------------------------------------

def tree_files():
    out = []
    for root, dirs, files in os.walk(REPO):
        rel = os.path.relpath(root, REPO)
        if rel == ".":
            dirs[:] = [d for d in dirs if d not in ("_build", ".git", "testimages", "java", "doc", "release", "fuzz")]
        for f in files:
            out.append(os.path.join(root, f))
    out.sort()
    return out


def tree_hash():
    h = hashlib.sha256()
    for p in tree_files():
        try:
            with open(p, "rb") as f:
                data = f.read()
        except OSError:
            continue
        h.update(os.path.relpath(p, REPO).encode())
        h.update(b"\0")
        h.update(hashlib.sha256(data).digest())
    return h.hexdigest()[:20]


VARIANTS = {
    # name: (cmake args, extra c flags for the harness)
    "san": (["-DWITH_SIMD=0", "-DCMAKE_BUILD_TYPE=None", "-DCMAKE_C_FLAGS=" + SAN_FLAGS], SAN_FLAGS),
    # san with the LJT_VERIF_POOLS hook of src/jmemmgr.c: every small object of the library's pools is a malloc block of its own,
    # so that ASan sees overruns of objects that otherwise sit inside one pool block
    "sanp": (["-DWITH_SIMD=0", "-DCMAKE_BUILD_TYPE=None", "-DCMAKE_C_FLAGS=" + SAN_FLAGS + " -DLJT_VERIF_POOLS"], SAN_FLAGS),
    "simd": (["-DWITH_SIMD=1", "-DCMAKE_BUILD_TYPE=Release", "-DCMAKE_C_FLAGS=-g"], "-O2 -g"),
    "plain": (["-DWITH_SIMD=0", "-DCMAKE_BUILD_TYPE=Release", "-DCMAKE_C_FLAGS=-g"], "-O2 -g"),
    "tsan": (["-DWITH_SIMD=1", "-DCMAKE_BUILD_TYPE=None", "-DCMAKE_C_COMPILER=clang",
              "-DCMAKE_C_FLAGS=-O1 -g -fsanitize=thread"], "-O1 -g -fsanitize=thread"),
}


class BuildError(Exception):
    pass


def build_variants(names):
    """Build the requested variants of /repo's current working tree (static
    libraries only) in a scratch copy outside /repo and /verif, keep only the
    products (libraries + generated config headers) in /verif/.cache/<treehash>/,
    and remove the scratch copy.  The cache key is a hash over every file of
    the working tree, so a product is only ever reused for identical sources."""
    th = tree_hash()
    base = os.path.join(CACHE, th)
    need = [n for n in names if not os.path.exists(os.path.join(base, n, "ok"))]
    if need:
        with Lock(".lock-build"):
            need = [n for n in names if not os.path.exists(os.path.join(base, n, "ok"))]
            if need:
                _evict(keep=th)
                _build(th, need)
    return th, {n: os.path.join(base, n) for n in names}


def _evict(keep):
    if not os.path.isdir(CACHE):
        return
    ents = [d for d in os.listdir(CACHE) if d != keep and os.path.isdir(os.path.join(CACHE, d))]
    ents.sort(key=lambda d: os.path.getmtime(os.path.join(CACHE, d)))
    while len(ents) > 1:
        shutil.rmtree(os.path.join(CACHE, ents.pop(0)), ignore_errors=True)


def _build(th, names):
    scratch = tempfile.mkdtemp(prefix="ljtv.", dir="/var/tmp")
    try:
        src = os.path.join(scratch, "src")
        r = run(["rsync", "-a", "--exclude", "_build", "--exclude", ".git", REPO + "/", src + "/"])
        if r.returncode != 0:
            raise BuildError("rsync failed: " + r.stdout)
        procs = []
        for n in names:
            bdir = os.path.join(scratch, "b-" + n)
            args, _ = VARIANTS[n]
            cmd = ("cmake -G Ninja -S %s -B %s -DENABLE_SHARED=0 -DENABLE_STATIC=1 -DWITH_JAVA=0 %s > %s/cmake.log 2>&1 && "
                   "ninja -C %s turbojpeg-static jpeg-static cjpeg-static djpeg-static jpegtran-static > %s/ninja.log 2>&1") % (
                src, bdir, " ".join("'%s'" % a for a in args), scratch, bdir, scratch)
            os.makedirs(bdir, exist_ok=True)
            procs.append((n, bdir, subprocess.Popen(cmd, shell=True)))
        for n, bdir, p in procs:
            rc = p.wait()
            if rc != 0:
                tail = ""
                for lf in ("cmake.log", "ninja.log"):
                    try:
                        tail += open(os.path.join(scratch, lf)).read()[-3000:]
                    except OSError:
                        pass
                raise BuildError("build of variant %s failed:\n%s" % (n, tail))
            dst = os.path.join(CACHE, th, n)
            shutil.rmtree(dst, ignore_errors=True)
            os.makedirs(dst)
            for f in ("libturbojpeg.a", "libjpeg.a", "jconfig.h", "jconfigint.h", "jversion.h",
                      "cjpeg-static", "djpeg-static", "jpegtran-static"):
                p2 = os.path.join(bdir, f)
                if os.path.exists(p2):
                    shutil.copy2(p2, dst)
            sj = os.path.join(bdir, "simd", "jsimdcfg.inc")
            if os.path.exists(sj):
                shutil.copy2(sj, dst)
            open(os.path.join(dst, "ok"), "w").write(th)
    finally:
        shutil.rmtree(scratch, ignore_errors=True)


def compile_harness(th, variant, vdir, sources, out_name, extra=""):
    """Compile a C harness against the products of `variant`; cached by the
    hash of the harness sources + tree hash."""
    h = hashlib.sha256(th.encode())
    deps = list(sources)
    hd = os.path.join(VERIF, "harness")
    deps += sorted(os.path.join(hd, f) for f in os.listdir(hd))
    for s in deps:
        h.update(open(s, "rb").read())
    h.update(extra.encode())
    key = h.hexdigest()[:16]
    out = os.path.join(vdir, "%s-%s" % (out_name, key))
    if os.path.exists(out):
        return out
    cc = "clang" if variant == "tsan" else "gcc"
    flags = VARIANTS[variant][1]
    sources = list(sources) + sorted(os.path.join(hd, f) for f in os.listdir(hd) if f.startswith("extra_") and f.endswith(".c"))
    cmd = "%s %s -std=gnu11 -w -I%s/src -I%s -I%s/harness %s %s -o %s.tmp %s/libturbojpeg.a -lm -lpthread" % (
        cc, flags, REPO, vdir, VERIF, extra, " ".join(sources), out, vdir)
    r = run(cmd, shell=True)
    if r.returncode != 0:
        raise BuildError("harness compile failed (%s):\n%s" % (out_name, r.stdout[-6000:]))
    os.rename(out + ".tmp", out)
    return out


# --------------------------------------------------------------------------
# Gen: tables regenerated from the working tree
# --------------------------------------------------------------------------

def write_if_changed(path, content):
    try:
        if open(path).read() == content:
            return False
    except OSError:
        pass
    os.makedirs(os.path.dirname(path), exist_ok=True)
    with open(path + ".tmp", "w") as f:
        f.write(content)
    os.replace(path + ".tmp", path)
    return True


def run_gen(th, vdirs):
    """Regenerate lean/LJT/Gen/*.lean from the working tree.  Returns the list
    of Gen files whose content changed."""
    changed = []
    gen_src = os.path.join(VERIF, "tools", "gen_tables.c")
    for variant in ("san", "simd"):
        if variant not in vdirs:
            continue
        exe = compile_harness(th, variant, vdirs[variant], [gen_src], "gen_tables",
                              extra="-DGEN_VARIANT_%s" % variant.upper())
        r = run([exe], stderr=subprocess.PIPE, env=dict(os.environ, ASAN_OPTIONS="detect_leaks=0"))
        if r.returncode != 0:
            raise BuildError("gen_tables (%s) failed: %s %s" % (variant, r.stdout[-2000:], r.stderr[-2000:]))
        # output: sections  "=== File.lean" followed by content
        cur, buf = None, []
        files = {}
        for line in r.stdout.split("\n"):
            if line.startswith("=== "):
                if cur:
                    files[cur] = "\n".join(buf) + "\n"
                cur, buf = line[4:].strip(), []
            else:
                buf.append(line)
        if cur:
            files[cur] = "\n".join(buf) + "\n"
        for name, content in files.items():
            if write_if_changed(os.path.join(LEAN, "LJT", "Gen", name), content):
                changed.append(name)
    for tool in ("gen_asm.py", "gen_syms.py", "gen_src.py"):
        tp = os.path.join(VERIF, "tools", tool)
        if os.path.exists(tp):
            r = run([sys.executable, tp, REPO, json.dumps(vdirs), os.path.join(LEAN, "LJT", "Gen")],
                    stderr=subprocess.PIPE)
            if r.returncode != 0:
                raise BuildError("%s failed: %s %s" % (tool, r.stdout[-2000:], r.stderr[-2000:]))
            changed += [l[8:] for l in r.stdout.split("\n") if l.startswith("CHANGED ")]
    return changed


# --------------------------------------------------------------------------
# Lean: build, audit
# --------------------------------------------------------------------------

def lake_build(targets=("LJT", "ljt-driver")):
    t0 = time.time()
    r = run(["lake", "build"] + list(targets), cwd=LEAN)
    return r.returncode == 0, r.stdout, time.time() - t0


def strip_comments(src):
    # remove /- ... -/ (nested) and -- ... comments
    out, i, depth, n = [], 0, 0, len(src)
    while i < n:
        if src.startswith("/-", i):
            depth += 1; i += 2; continue
        if depth > 0 and src.startswith("-/", i):
            depth -= 1; i += 2; continue
        if depth > 0:
            i += 1; continue
        if src.startswith("--", i):
            j = src.find("\n", i)
            i = n if j < 0 else j
            continue
        out.append(src[i]); i += 1
    return "".join(out)


def grep_forbidden():
    hits = []
    for root, dirs, files in os.walk(LEAN):
        if ".lake" in root:
            continue
        for f in files:
            if not f.endswith(".lean"):
                continue
            p = os.path.join(root, f)
            txt = strip_comments(open(p).read())
            # string literals may legitimately contain words; drop them
            txt = re.sub(r'"(\\.|[^"\\])*"', '""', txt)
            for tok in FORBIDDEN:
                if tok in txt:
                    hits.append((os.path.relpath(p, LEAN), tok))
            if re.search(r'(?m)^\s*axiom\s', txt):
                hits.append((os.path.relpath(p, LEAN), "axiom"))
    return hits


def theorems_in(props_file):
    """Names of theorems declared in a Props file, qualified by its namespace."""
    txt = strip_comments(open(props_file).read())
    ns = []
    names = []
    for line in txt.split("\n"):
        m = re.match(r'\s*namespace\s+(\S+)', line)
        if m:
            ns.append(m.group(1)); continue
        m = re.match(r'\s*end\s+(\S+)', line)
        if m and ns and ns[-1] == m.group(1):
            ns.pop(); continue
        m = re.match(r'\s*(?:@\[[^\]]*\]\s*)?(?:protected\s+|private\s+)?theorem\s+(\S+)', line)
        if m:
            names.append(".".join(ns + [m.group(1)]))
    return names


def audit_axioms(prop_id, extra_modules=()):
    """#print axioms for every theorem of LJT/Props/<id>.lean.  Returns
    (list of (theorem, axioms)), problems."""
    pf = os.path.join(LEAN, "LJT", "Props", prop_id + ".lean")
    names = theorems_in(pf)
    if not names:
        return [], ["no theorems found in Props/%s.lean" % prop_id]
    src = "import LJT.Props.%s\n" % prop_id + "".join("#print axioms %s\n" % n for n in names)
    tmp = os.path.join(LEAN, ".lake", "audit_%s.lean" % prop_id)
    os.makedirs(os.path.dirname(tmp), exist_ok=True)
    open(tmp, "w").write(src)
    r = run(["lake", "env", "lean", tmp], cwd=LEAN)
    out = r.stdout
    res, problems = [], []
    if r.returncode != 0:
        problems.append("axiom audit failed to elaborate: " + out[-1500:])
    # parse: "'name' depends on axioms: [a, b]" or "'name' does not depend on any axioms"
    flat = re.sub(r'\s+', ' ', out)
    for n in names:
        m = re.search(r"'%s' depends on axioms: \[([^\]]*)\]" % re.escape(n), flat)
        if m:
            ax = [a.strip() for a in m.group(1).split(",") if a.strip()]
        elif re.search(r"'%s' does not depend on any axioms" % re.escape(n), flat):
            ax = []
        else:
            problems.append("no axiom report for " + n)
            continue
        bad = [a for a in ax if a not in ALLOWED_AXIOMS]
        if bad:
            problems.append("%s depends on disallowed axioms %s" % (n, bad))
        res.append((n, ax))
    return res, problems


def leanchecker(module):
    r = run(["lake", "env", "leanchecker", module], cwd=LEAN)
    return r.returncode == 0, r.stdout[-2000:]


# --------------------------------------------------------------------------
# op-file correspondence
# --------------------------------------------------------------------------

def _run_watched(exe, inp, env, timeout, quiet=200):
    """Run exe with inp on stdin; besides the overall timeout, kill it when it has produced no output for `quiet` seconds
    (the executor's own per-operation watchdog is 60 s; a process whose threads spin may never get to run it)."""
    import threading, select, tempfile
    errf = tempfile.TemporaryFile()
    p = subprocess.Popen([exe], stdin=subprocess.PIPE, stdout=subprocess.PIPE, stderr=errf, env=env)
    def feed():
        try:
            p.stdin.write(inp.encode()); p.stdin.close()
        except Exception:
            pass
    th = threading.Thread(target=feed, daemon=True); th.start()
    chunks = []; t0 = time.time(); last = t0; killed = None
    fd = p.stdout.fileno()
    while True:
        r, _, _ = select.select([fd], [], [], 5.0)
        now = time.time()
        if r:
            data = os.read(fd, 1 << 16)
            if not data:
                break
            chunks.append(data); last = now
        elif p.poll() is not None:
            continue
        if now - t0 > timeout or now - last > quiet:
            killed = "timeout"
            p.kill()
            break
    try:
        p.wait(timeout=30)
    except Exception:
        p.kill()
    errf.seek(0)
    err = errf.read().decode(errors="replace")
    errf.close()
    out = b"".join(chunks).decode(errors="replace")
    if killed:
        return out, "timeout", -9
    return out, err, p.returncode


def run_exec(exe, ops, env=None, timeout=1800):
    """Run a line-protocol executable over ops (list of str).  Returns a list
    of (R, O) per op where R is the result line (or 'crash:<kind>') and O the
    oracle line or None.  On a crash the executable is restarted after the
    crashing op."""
    results = [None] * len(ops)
    start = 0
    e = dict(os.environ)
    e.setdefault("ASAN_OPTIONS", "detect_leaks=0:abort_on_error=0:allocator_may_return_null=1")
    e.setdefault("UBSAN_OPTIONS", "print_stacktrace=1")
    if env:
        e.update(env)
    crashes = []
    while start < len(ops):
        inp = "\n".join(ops[start:]) + "\n"
        out, err, rc = _run_watched(exe, inp, e, timeout)
        idx = start
        curR, curO = None, None
        for ln in out.split("\n"):
            if ln.startswith("R ") and curR is None:
                curR = ln[2:]
            elif ln.startswith("O "):
                curO = ln[2:]
            elif ln == "E":
                if idx < len(ops):
                    results[idx] = (curR if curR is not None else "skip", curO)
                    idx += 1
                curR, curO = None, None
        if idx >= len(ops):
            break
        # crashed or stopped at op idx
        kind = "timeout" if err == "timeout" else classify_crash(err, rc)
        results[idx] = ("crash:" + kind, "fail crash:" + kind)
        crashes.append((idx, kind, err[-4000:] if isinstance(err, str) else ""))
        start = idx + 1
    return results, crashes


def classify_crash(err, rc):
    m = re.search(r'ERROR: AddressSanitizer: ([a-zA-Z-]+)', err)
    if m:
        return "asan-" + m.group(1)
    m = re.search(r'runtime error: ([^\n]{0,80})', err)
    if m:
        return "ubsan-" + re.sub(r'[^a-z0-9]+', '-', m.group(1).lower())[:60].strip('-')
    if "ThreadSanitizer" in err:
        return "tsan"
    if "HARNESS-INTERNAL" in err:
        return "harness-internal"
    if "OP-TIMEOUT" in err:
        return "timeout"
    return "exit%d" % rc


def run_driver(ops, timeout=1800):
    if not os.path.exists(DRIVER):
        raise BuildError("Lean driver not built")
    p = subprocess.run([DRIVER], input="\n".join(ops) + "\n", stdout=subprocess.PIPE,
                       stderr=subprocess.PIPE, text=True, timeout=timeout)
    lines = [l[2:] for l in p.stdout.split("\n") if l.startswith("R ")]
    if len(lines) != len(ops):
        raise BuildError("driver returned %d lines for %d ops (rc=%d): %s" %
                         (len(lines), len(ops), p.returncode, p.stderr[-1500:]))
    return lines


# --------------------------------------------------------------------------
# PRNG: every random choice derives from one seed
# --------------------------------------------------------------------------

def rng_for(seed, prop):
    return random.Random("%s/%s" % (seed, prop))


# --------------------------------------------------------------------------
# known findings
# --------------------------------------------------------------------------

def load_known():
    p = os.path.join(VERIF, "known_findings.json")
    try:
        return json.load(open(p))["findings"]
    except OSError:
        return []
