#!/bin/bash
# tools/confirm_seed.sh <round-dir> <id>...   confirm a sub-agent's change myself: the patch applies to /repo HEAD, the patched tree builds,
# the unedited ctest suite passes with it, and the demonstration passes on the pristine build and fails on the patched one.
# Scratch trees live under /var/tmp/confirm and are removed afterwards.
R=$1; shift
mkdir -p /var/tmp/confirm
P=/var/tmp/confirm/pristine
if [ ! -f $P/_build/libjpeg.a ] || [ "$(cat $P/HEADREV 2>/dev/null)" != "$(git -C /repo rev-parse HEAD)" ]; then
  rm -rf $P; mkdir -p $P; git -C /repo archive HEAD | tar -x -C $P
  (cmake -G Ninja -S $P -B $P/_build -DCMAKE_BUILD_TYPE=Release >/dev/null && cmake --build $P/_build -j12 >/dev/null) || { echo "pristine build failed"; exit 2; }
  git -C /repo rev-parse HEAD > $P/HEADREV
fi
for id in "$@"; do
  D=$R/$id; W=/var/tmp/confirm/$id
  rm -rf $W; mkdir -p $W; git -C /repo archive HEAD | tar -x -C $W
  if ! (cd $W && git apply --unsafe-paths $D/patch.diff 2>/dev/null || patch -p1 -s -F3 < $D/patch.diff >/dev/null 2>&1); then echo "$id: PATCH-DOES-NOT-APPLY"; rm -rf $W; continue; fi
  if ! (cmake -G Ninja -S $W -B $W/_build -DCMAKE_BUILD_TYPE=Release >/dev/null 2>&1 && cmake --build $W/_build -j12 > $W/build.log 2>&1); then echo "$id: BUILD-FAILS"; rm -rf $W; continue; fi
  nw=$(grep -c "warning:" $W/build.log)
  t=$( (cd $W/_build && ctest -j12 --timeout 900 2>&1) | grep "tests passed" )
  demo=$(ls $D/demo_m* 2>/dev/null | head -1); r0=skip; r1=skip
  case "$demo" in
    *.c) for v in 0 1; do
           if [ $v = 0 ]; then T=$P; else T=$W; fi
           if gcc -O1 -I$T/src -I$T/_build "$demo" $T/_build/libturbojpeg.a $T/_build/libjpeg.a -lm -lpthread -o $W/demo$v 2>$W/demo$v.err || gcc -O1 -I$T/src -I$T/_build "$demo" $T/_build/libjpeg.a -lm -lpthread -o $W/demo$v 2>>$W/demo$v.err || gcc -O1 -I$T/src -I$T/_build "$demo" $T/_build/libturbojpeg.a -lm -lpthread -Wl,--wrap=malloc,--wrap=calloc,--wrap=realloc,--wrap=free -o $W/demo$v 2>>$W/demo$v.err; then
             (cd $W && timeout 300 ./demo$v > demo$v.out 2>&1); eval r$v=\$?
           else eval r$v=compile-error; fi
         done ;;
    *) r0=manual; r1=manual ;;
  esac
  echo "$id: applies, builds (warnings: $nw), ctest: $t, demo pristine rc=$r0 patched rc=$r1"
  rm -rf $W
done
