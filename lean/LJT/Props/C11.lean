import LJT.Model.Extent
import LJT.Props.C20
/-! # C11 - only the documented extent of caller buffers is read or written

The addressing arithmetic of packed-pixel buffers as theorems (for planar YUV buffers see the
C20 theorems `unified_planes_inside_and_disjoint`, `plane_size_formula`); that the real code -
including the SIMD kernels that process several pixels at a time - stays inside these extents
is observed with guard pages and canaries (harness `g11*`). -/
namespace LJT.Props.C11
open LJT.Extent

theorem div_mod_of_row (pitch y k : Nat) (hk : k < pitch) : (y * pitch + k) / pitch = y ∧ (y * pitch + k) % pitch = k := by
  have hp : 0 < pitch := by omega
  constructor
  · rw [Nat.mul_comm, Nat.mul_add_div hp, Nat.div_eq_of_lt hk]; omega
  · rw [Nat.mul_comm, Nat.mul_add_mod, Nat.mod_eq_of_lt hk]

/-- **Every sample of every row lies inside the documented buffer size**, in either row order -/
theorem rows_inside_documented_size (rowBytes pitch h : Nat) (bottomUp : Bool) (y o : Nat)
    (hy : y < h) (hin : inRow rowBytes pitch h bottomUp y o) : o < docSize rowBytes pitch h := by
  unfold inRow rowStart at hin
  unfold docSize
  cases bottomUp with
  | false =>
    simp only [Bool.false_eq_true, if_false] at hin
    have : y * pitch ≤ (h - 1) * pitch := Nat.mul_le_mul_right _ (by omega)
    rw [Nat.mul_comm pitch]; omega
  | true =>
    simp only [if_true] at hin
    have : (h - 1 - y) * pitch ≤ (h - 1) * pitch := Nat.mul_le_mul_right _ (by omega)
    rw [Nat.mul_comm pitch]; omega

/-- **Row padding belongs to no row**: with `rowBytes ≤ pitch`, an offset is a sample of some
row iff `o / pitch < h ∧ o % pitch < rowBytes`; so bytes with `o % pitch ≥ rowBytes` (the
padding) and bytes beyond the last row are outside every row, in either row order -/
theorem owned_iff (rowBytes pitch h : Nat) (bottomUp : Bool) (hp : rowBytes ≤ pitch) (hpos : 0 < pitch) (o : Nat) :
    (∃ y, y < h ∧ inRow rowBytes pitch h bottomUp y o) ↔ owned rowBytes pitch h o = true := by
  unfold owned inRow rowStart
  simp only [Bool.and_eq_true, decide_eq_true_eq]
  have hdm := Nat.div_add_mod o pitch
  constructor
  · rintro ⟨y, hy, hlo, hhi⟩
    cases bottomUp with
    | false =>
      simp only [Bool.false_eq_true, if_false] at hlo hhi
      obtain ⟨k, hk⟩ : ∃ k, o = y * pitch + k := ⟨o - y * pitch, by omega⟩
      have hkp : k < pitch := by omega
      have := div_mod_of_row pitch y k hkp
      rw [hk, this.1, this.2]; omega
    | true =>
      simp only [if_true] at hlo hhi
      obtain ⟨k, hk⟩ : ∃ k, o = (h - 1 - y) * pitch + k := ⟨o - (h - 1 - y) * pitch, by omega⟩
      have hkp : k < pitch := by omega
      have := div_mod_of_row pitch (h - 1 - y) k hkp
      rw [hk, this.1, this.2]; omega
  · rintro ⟨hd, hm⟩
    have ho : o = o / pitch * pitch + o % pitch := by rw [Nat.mul_comm]; exact hdm.symm
    generalize o / pitch = q at *
    generalize o % pitch = r at *
    cases bottomUp with
    | false => exact ⟨q, hd, by simp only [Bool.false_eq_true, if_false]; omega, by simp only [Bool.false_eq_true, if_false]; omega⟩
    | true =>
      have hq : h - 1 - (h - 1 - q) = q := by omega
      refine ⟨h - 1 - q, by omega, ?_, ?_⟩ <;> simp only [if_true, hq] <;> omega

/-- rows do not overlap -/
theorem rows_disjoint (rowBytes pitch h : Nat) (bottomUp : Bool) (hp : rowBytes ≤ pitch) (y1 y2 o : Nat)
    (h1 : y1 < h) (h2 : y2 < h) (hne : y1 ≠ y2)
    (i1 : inRow rowBytes pitch h bottomUp y1 o) (i2 : inRow rowBytes pitch h bottomUp y2 o) : False := by
  unfold inRow rowStart at i1 i2
  cases bottomUp with
  | false =>
    simp only [Bool.false_eq_true, if_false] at i1 i2
    rcases Nat.lt_or_gt_of_ne hne with hlt | hlt
    · have : (y1 + 1) * pitch ≤ y2 * pitch := Nat.mul_le_mul_right _ hlt
      rw [Nat.add_mul] at this; omega
    · have : (y2 + 1) * pitch ≤ y1 * pitch := Nat.mul_le_mul_right _ hlt
      rw [Nat.add_mul] at this; omega
  | true =>
    simp only [if_true] at i1 i2
    rcases Nat.lt_or_gt_of_ne hne with hlt | hlt
    · have : (h - 1 - y2 + 1) * pitch ≤ (h - 1 - y1) * pitch := Nat.mul_le_mul_right _ (by omega)
      rw [Nat.add_mul] at this; omega
    · have : (h - 1 - y1 + 1) * pitch ≤ (h - 1 - y2) * pitch := Nat.mul_le_mul_right _ (by omega)
      rw [Nat.add_mul] at this; omega

/-- non-vacuity -/
example : owned 6 8 3 9 = true ∧ owned 6 8 3 14 = false ∧ owned 6 8 3 24 = false ∧ docSize 6 8 3 = 22 := by decide

end LJT.Props.C11
