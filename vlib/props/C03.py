"""C03 - entropy coding and scan structure never change the coefficients."""
ID = "C03"
VARIANTS = ["san", "simd"]
RULE = ("ent: coefficient images from a formula (sparse, flat, extreme amplitude, dense, last-coefficient-only, zero, mostly flat with "
        "isolated blocks; 8- and 12-bit; gray, 3 and 4 components, 7 standard and non-standard sampling factors, sizes with partial MCUs, "
        "images with more than 32767 and more than 65536 blocks) written with jpeg_write_coefficients under every entropy mode: Huffman "
        "default tables, optimised tables, default progression, seeded random valid progressive scripts (interleaved/split DC, random AC "
        "bands, up to 3 successive-approximation levels, shuffled order), random sequential multi-scan scripts, arithmetic sequential / "
        "progressive / scripted, restart intervals in MCUs (0..65535) and in rows, optionally re-encoded by the transcoder path "
        "(jpeg_read_coefficients -> jpeg_copy_critical_parameters -> jpeg_write_coefficients) into another mode; oracle on the real code: "
        "the stream carries exactly the source coefficients and decodes without warnings.  Stage 2 (t81): every Huffman-coded stream is "
        "decoded by the Lean T.81 decoder and by jpeg_read_coefficients; tables, geometry, scan count and coefficient digests must agree.  "
        "seqbytes: the entropy-coded data of baseline scans (Annex K tables, all sampling factors, partial MCUs, restart intervals) written by "
        "the real encoder (C and SIMD Huffman encoders) must equal, byte for byte, what the Lean encoder - the function the theorems are "
        "about - produces for the same coefficients")
TRUSTED = ["Model.T81 is a decoder written from ITU-T T.81 (marker syntax, Annex C table construction, Annex F/G decoding procedures); "
           "Model.SeqHuff is the block coder of jchuff.c; Model.Arith is an executable model of the QM decoder and the coefficient binarisation of jdarith.c (tied on every arithmetic stream, no theorems)"]
ASSUMPTIONS = ["identical pixels follow from identical coefficients because decompression is a function of the coefficient arrays and settings"]

SS = [0, 1, 2, 3, 4, 5, 6, 3, 0, 2, 21, 12, 22, 41, 14, 100, 101, 102]


def classify(op, R):
    p = op.split(" ")
    if p[0] == "seqbytes":
        return "seqbytes:nc%s:%sx%s:ri%s" % (p[7], p[5], p[6], "0" if p[4] == "0" else "1")
    if p[0] == "ent":
        return "ent:ss%s:p%s:k%s:m%s:ri%s:t%s" % (p[1], p[4], p[6], p[7], "0" if p[8] == "0" and p[9] == "0" else "1", p[11])
    return "t81:" + ("err" if R.startswith("err") else "arith" if "arith" in R else "ok")


def one(rng, small=True):
    ss = rng.choice(SS)
    w = rng.choice([rng.randint(1, 50), rng.randint(1, 20), 8, 16, 17, 33]); h = rng.choice([rng.randint(1, 40), rng.randint(1, 17), 8, 16])
    prec = rng.choice([8, 8, 8, 12])
    kind = rng.choice([0, 0, 1, 2, 3, 4, 5, 6, 7])
    mode = rng.choice([0, 1, 2, 3, 3, 3, 4, 5, 6, 7, 8])
    ri = rng.choice([0, 0, 0, 1, 2, 3, 7, 8, 9, 64, 65535, rng.randint(1, 40)])
    rirows = rng.choice([0, 0, 0, 1, 2]) if ri == 0 else 0
    mode2 = rng.choice([-1, -1, -1, 0, 1, 2, 3, 4, 6, 7]) 
    return "ent %d %d %d %d %d %d %d %d %d %d %d" % (ss, w, h, prec, rng.randrange(1 << 30), kind, mode, ri, rirows, rng.randrange(1 << 30), mode2)


def gen_ops(rng, tier):
    big = tier == "thorough"
    ops = [one(rng) for _ in range(2500 if big else 420)]
    # more blocks than an end-of-band run can count (0x7FFF), flat and nearly flat
    for kind in (1, 6):
        for mode in ((2, 3, 5) if big else (2,)):
            ops.append("ent 3 1456 1456 8 %d %d %d 0 0 %d -1" % (rng.randrange(1 << 20), kind, mode, rng.randrange(1 << 20)))
    # arithmetic coding of a flat image with an isolated block about every 11000 blocks: the adaptive statistics climb to the
    # small-Qe end of the probability-estimation table (states 10..13 of T.81 Table D.3) before a less probable symbol is coded
    for mode in ((4, 5, 7) if big else (4, 5)):
        ops.append("ent 3 1456 1456 8 %d 8 %d 0 0 %d -1" % (rng.randrange(1 << 20), mode, rng.randrange(1 << 20)))
    # restart interval given in rows reaching the 16-bit limit of DRI, with more MCUs than that in the scan
    for rows in (255, 256):
        ops.append("ent 3 2048 2056 8 %d 1 0 0 %d 0 -1" % (rng.randrange(1 << 20), rows))
    if big:
        ops.append("ent 3 2048 2056 8 %d 6 4 0 256 0 -1" % rng.randrange(1 << 20))
        ops.append("ent 3 2048 2056 8 %d 1 2 0 256 0 -1" % rng.randrange(1 << 20))
        ops.append("ent 3 2048 2056 8 %d 1 1 65535 0 0 -1" % rng.randrange(1 << 20))
    # arithmetic coding with components that share a conditioning table sent in separate scans
    for i in range(40 if big else 12):
        ops.append("ent %d %d %d 8 %d %d %d 0 0 %d -1" % (rng.choice([0, 2, 1]), rng.randint(9, 40), rng.randint(9, 40), rng.randrange(1 << 20),
                                                        rng.choice([0, 3]), rng.choice([7, 8]), rng.randrange(1 << 20)))
    # the block coder itself, byte for byte: baseline scans written by the real encoder for formula coefficients vs the Lean
    # encoder (SeqHuff.encodeBlock + interval framing + libjpeg's dummy-block rule + restart markers)
    for i in range(1200 if big else 220):
        nc = rng.choice([1, 3, 3, 3])
        hs, vs = rng.choice([(1, 1), (2, 1), (2, 2), (1, 2), (4, 1), (1, 4), (2, 1), (2, 2)]) if nc == 3 else (1, 1)
        ops.append("seqbytes %d %d %d %d %d %d %d" % (rng.randrange(1 << 30), rng.randint(1, 70), rng.randint(1, 50), rng.choice([0, 0, 1, 2, 3, 7, 8, 9, 50]), hs, vs, nc))
    return ops


def stage2(ops, model_lines, res_by_v):
    """streams written by the real encoder -> decoded by the Lean T.81 decoder and by libjpeg-turbo"""
    out, fails = [], []
    vs = list(res_by_v.keys())
    for i, op in enumerate(ops):
        if not op.startswith("ent "):
            continue
        streams = {}
        for v in vs:
            R = res_by_v[v][i][0]
            p = R.split(" ")
            if len(p) == 2 and p[0] == "skip" and p[1].startswith("ffd8"):
                streams[v] = p[1]
        if len(set(streams.values())) > 1:
            fails.append((vs[0], i, op, "streams differ between builds", "fail ent: the scalar and the SIMD build wrote different streams for the same request"))
        if streams:
            for st in sorted(set(streams.values())):
                out.append("t81 " + st)
    return out, fails


def search(ctx, failing_ops):
    from .. import common as C
    import random
    rng = random.Random("search/%s" % ctx["seed"])
    ops = [o for o in failing_ops if o.startswith("ent ")]
    # a byte-level disagreement (seqbytes / seqfile / progfile) becomes the same request through the end-to-end oracle
    for o in failing_ops:
        p = o.split(" ")
        if p[0] in ("seqbytes", "seqfile", "progfile", "arifile") and len(p) >= 8:
            ss = "3" if p[7] == "1" else str(int(p[5]) * 10 + int(p[6]))
            kind, sseed = (p[8], p[9]) if p[0] == "progfile" else ((p[8], p[10]) if p[0] == "arifile" else ("0", "0"))
            mode = p[9] if p[0] == "arifile" else ("0" if p[0] != "progfile" else ("2" if sseed == "0" else "3"))
            ops.append("ent %s %s %s 8 %s %s %s %s 0 %s -1" % (ss, p[2], p[3], p[1], kind, mode, p[4], sseed))
    ops += ["ent 3 1456 1456 8 %d 8 %d 0 0 %d -1" % (rng.randrange(1 << 20), m, rng.randrange(1 << 20)) for m in (4, 5)]
    ops += [one(rng) for _ in range(300)]
    found = []
    for v, exe in ctx["exes"].items():
        res, _ = C.run_exec(exe, ops)
        for op, (R, O) in zip(ops, res):
            if O and O.startswith("fail"):
                found.append((v, op, R[:200], O))
    return found


MANIFEST = {
    "text": ("Kernel-checked Lean theorems on the entropy coders.  Sequential (Model.SeqHuff = jchuff.c encode_one_block / T.81 F.2.2): "
             "run-length coding of the 63 AC coefficients with ZRL and EOB is inverted exactly, the DC difference is recovered, a whole "
             "block round-trips for any valid tables.  Progressive (Model.ProgAC = jcphuff.c encode_mcu_AC_first / encode_mcu_AC_refine / "
             "emit_eobrun, and the procedures of T.81 G.2 the independent reader runs): for every sequence of blocks of a restart "
             "interval the first-pass event stream with EOB runs (incl. the forced flush at 0x7FFF) and the refinement event stream "
             "(ZRL folded into EOB, correction bits buffered in BE/BR and emitted after ZRL / symbol / EOBn, flushes at 0x7FFF and BE>937) "
             "are inverted exactly by the reader's block procedures, for any prefix code containing the symbols used and whatever "
             "follows; the scans chain (the value left by level Al+1 is the history of level Al) and level 0 is exact.  The very "
             "functions the theorems are about produce the model's bytes, which are compared byte for byte with libjpeg-turbo's files "
             "(C04 progfile / seqfile), and decode every stream the real encoder writes (t81)."),
    "design_ref": "DESIGN.md 6.3",
    "note": ("Partial: the DC scans of progressive mode use the sequential difference theorem; the composition of per-interval theorems "
             "into a whole-scan / whole-file statement (restart markers, byte stuffing: C04 theorems; MCU order, dummy blocks: modelled and "
             "tied) is not stated as one theorem; the QM coder is modelled and tied but not proved. Trusted: Lean kernel; axioms "
             "propext, Quot.sound, Classical.choice; hand-written models tied by correspondence."),
    "technique": "Lean 4 proof (induction over coefficient lists and block sequences, prefix-code lemma from C19) + byte-exact and independent-decoder correspondence + real-code oracle",
}
