import LJT.Gen.TJ
/-! Partial-decompression arithmetic: output dimensions (`jpeg_calc_output_dimensions`,
`TJSCALED`), the crop window of `jpeg_crop_scanline`, the return value of
`jpeg_skip_scanlines`, and the region validation of `tj3SetCroppingRegion`. -/
namespace LJT.DecompCtl
open LJT.Gen

/-- `jdiv_round_up(dim * scale_num, scale_denom)` -/
def outputDim (dim num denom : Nat) : Nat := (dim * num + denom - 1) / denom

/-- `jpeg_crop_scanline`: `(xoffset', width')` for a request `(x, w)` and iMCU alignment `align` -/
def cropWindow (align x w : Nat) : Nat × Nat :=
  let x' := x / align * align
  (x', w + x - x')

/-- `jpeg_skip_scanlines` return value at `scanline` of `height` -/
def skipReturn (height scanline n : Nat) : Nat :=
  if scanline + n ≥ height then height - scanline else n

/-- `tj3SetCroppingRegion` on a header with scaled size `sw x sh` and scaled iMCU width `mw`
(all arguments are C `int`s); `true` = accepted -/
def tjCropAccept (sw sh mw : Int) (x y w h : Int) : Bool :=
  if x = 0 ∧ y = 0 ∧ w = 0 ∧ h = 0 then true
  else if x < 0 ∨ y < 0 ∨ w < 0 ∨ h < 0 then false
  else if ¬ (x % mw = 0) then false
  else
    let w' := if w = 0 then sw - x else w
    let h' := if h = 0 then sh - y else h
    if w' ≤ 0 ∨ h' ≤ 0 ∨ x > sw ∨ w' > sw - x ∨ y > sh ∨ h' > sh - y then false else true

end LJT.DecompCtl
