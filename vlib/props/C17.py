"""C17 - the compressor never crashes or emits bad output for any parameter combination."""
ID = "C17"
VARIANTS = ["san", "simd", "sanp"]      # sanp: san built with -DLJT_VERIF_POOLS (no pool slop: ASan sees intra-pool overruns)
RULE = ("cparam: the compression object filled from a seeded structured generator, family by family: (0) everything at once, (1) sampling "
        "factors 0..5 and table selectors 0..4 per component, (2) quantisation tables written directly by the application (zeros, 65535, "
        "8192, random 16-bit), (3) hostile Huffman tables (exactly complete code, over-subscribed, counts beyond 256, random counts and "
        "symbols, missing symbols, all 16-bit codes), (4) scan scripts valid and hostile, (5) lossless with predictor 0..11 and point "
        "transform 0..19 at precisions 2..16, (6) raw-data input, (7) extreme pixels; on top of dimensions 0..65559, 0..11 components, 17 "
        "input colourspaces x 6 JPEG colourspaces, precision 0..17, quality -1..100 and linear scale to 100000, smoothing 0..119, DCT "
        "method 0..7, optimise / arithmetic / progressive, restart interval to 70000 and in rows, arithmetic conditioning values, JFIF / "
        "Adobe marker fields.  xcoef: jpeg_write_coefficients with +-1023..+-32768 in every position / at DC / at 63, all modes, hostile "
        "tables.  Verdict: error_exit, or success with a stream SOI..EOI that jpeg_read_header + full decompression at the file's "
        "precision accept without warning at the requested dimensions; sanitizer reports, crashes and time-outs are failures.  vscript: "
        "scan scripts handed to jpeg_start_compress (valid progressive / sequential / lossless scripts for 1..10 components at 8 and 12 "
        "bits, one- and two-step mutations of them - Ss/Se/Ah/Al off by one, component lists reversed / duplicated / out of range, "
        "comps_in_scan 0, -1, 5, scans dropped, swapped, repeated - and random hostile ones): the Lean model of validate_script must give "
        "the same error code, offending scan number and mode, and must predict the JWRN_BOGUS_PROGRESSION count of the real decoder on "
        "the file the real compressor wrote; every accepted script is completed into a file and decoded by the own decoder")
TRUSTED = ["the theorems cover the decision logic that can be stated on the model (block size bound against the generated BUFSIZE, "
           "compressor-accepted Huffman tables are decompressor-accepted, accepted progressive scan scripts pass the decoder's progression "
           "checks - Model.ScanScript is a line-by-line model of validate_script and of start_pass_phuff_decoder's checks, tied by vscript); "
           "the rest of the parameter space is explored on the real code only"]
ASSUMPTIONS = ["the application passes a compression object created by jpeg_create_compress and image data of the declared size"]


def classify(op, R):
    p = op.split(" ")
    r = R.split(" ")
    if p[0] == "vscript":
        return "vscript:p%s:nc%s:%s" % (p[1], p[2], " ".join(r[:3]))
    if p[0] == "creuse":
        return "creuse:n%s" % p[2]
    if p[0] == "rstrows":
        return "rstrows:" + p[3]
    if p[0] == "cparam":
        return "cparam:f%s:%s" % (p[1], ("err" + r[2]) if len(r) > 2 and r[1] == "err" else " ".join(r[3:]) if len(r) > 3 else R[:12])
    return "xcoef:p%s:m%s:t%s:%s" % (p[1], p[2], p[6], r[1] if len(r) > 1 else "?")



def _valid_prog(rng, nc):
    """a valid progressive script as a list of (comps, ss, se, ah, al)"""
    scans = []
    dcal = rng.choice([0, 0, 1, 2])
    if nc <= 4 and rng.random() < .5:
        scans.append((list(range(nc)), 0, 0, 0, dcal))
    else:
        for c in range(nc):
            scans.append(([c], 0, 0, 0, dcal))
    bands = []
    for c in range(nc):
        k = 1
        while k <= 63:
            e = 63 if rng.random() < .3 else rng.randint(k, 63)
            al = rng.choice([0, 0, 1, 2])
            bands.append((c, k, e, al))
            scans.append(([c], k, e, 0, al))
            k = e + 1
            if rng.random() < .25:
                break
    for lvl in (2, 1):
        if dcal >= lvl:
            if nc <= 4 and rng.random() < .5:
                scans.append((list(range(nc)), 0, 0, lvl, lvl - 1))
            else:
                for c in range(nc):
                    scans.append(([c], 0, 0, lvl, lvl - 1))
        for (c, k, e, al) in bands:
            if al >= lvl:
                scans.append(([c], k, e, lvl, lvl - 1))
    return scans


def _vscript(rng):
    nc = rng.choice([1, 1, 3, 3, 3, 4, 2, 5, 10])
    prec = rng.choice([8, 8, 8, 12])
    kind = rng.choice(["prog", "prog", "prog", "seq", "lossless", "hostile"])
    if kind == "prog":
        scans = _valid_prog(rng, nc)
    elif kind == "seq":
        scans = [(list(range(nc)), 0, 63, 0, 0)] if nc <= 4 and rng.random() < .5 else [([c], 0, 63, 0, 0) for c in range(nc)]
    elif kind == "lossless":
        psv, pt = rng.randint(1, 7), rng.choice([0, 0, 1, 7, prec - 1, prec])
        scans = [(list(range(nc)), psv, 0, 0, pt)] if nc <= 4 and rng.random() < .5 else [([c], psv, 0, 0, pt) for c in range(nc)]
    else:
        scans = [(rng.sample(range(-1, nc + 1), rng.randint(1, min(4, nc + 2))), rng.randint(-1, 64), rng.randint(-1, 64), rng.randint(-1, 14), rng.randint(-1, 14))
                 for _ in range(rng.randint(1, 6))]
    scans = [list(s) for s in scans]
    ncs = [len(s[0]) for s in scans]
    # mutations of a valid script: each keeps the rest of the script intact
    for _ in range(rng.choice([0, 0, 1, 1, 2])):
        if not scans:
            break
        i = rng.randrange(len(scans))
        m = rng.randrange(10)
        if m == 0: scans[i][1] += rng.choice([-1, 1])
        elif m == 1: scans[i][2] += rng.choice([-1, 1])
        elif m == 2: scans[i][3] += rng.choice([-1, 1, 2])
        elif m == 3: scans[i][4] += rng.choice([-1, 1, 2, 9, 11, 12])
        elif m == 4: ncs[i] = rng.choice([0, -1, 5, ncs[i] + 1, max(ncs[i] - 1, 0)])
        elif m == 5: scans[i][0] = [rng.randint(-1, nc) for _ in scans[i][0]]
        elif m == 6: del scans[i]; del ncs[i]
        elif m == 7 and len(scans) > 1:
            j = rng.randrange(len(scans)); scans[i], scans[j] = scans[j], scans[i]; ncs[i], ncs[j] = ncs[j], ncs[i]
        elif m == 8: scans.insert(i, [list(scans[i][0])] + scans[i][1:]); ncs.insert(i, ncs[i])
        else: scans[i][0] = list(reversed(scans[i][0]))
    scans, ncs = scans[:64], ncs[:64]
    parts = []
    for s, n in zip(scans, ncs):
        idx = (list(s[0]) + [rng.choice([0, 0, 1, 7])] * 4)[:4]
        parts.append("%d %d %d %d %d %d %d %d %d" % (n, idx[0], idx[1], idx[2], idx[3], s[1], s[2], s[3], s[4]))
    return "vscript %d %d %d %s" % (prec, nc, len(scans), " ".join(parts))


def gen_ops(rng, tier):
    big = tier == "thorough"
    ops = []
    for i in range(30000 if big else 4000):
        ops.append("cparam %d %d" % (rng.choice([0, 0, 0, 1, 2, 3, 4, 5, 6, 7]), rng.randrange(1 << 30)))
    # scan scripts: valid progressive / sequential / lossless scripts, one- and two-step mutations of them, hostile ones; the model of
    # validate_script must give the same verdict (error code, offending scan, mode) and, for accepted progressive scripts, predict the
    # warnings of the real decoder on the file the real compressor wrote (theorem: none)
    for i in range(6000 if big else 900):
        ops.append(_vscript(rng))
    ops.append("vscript 8 1 0")
    # one compression object for a sequence of images with different component counts and coding modes
    for i in range(600 if big else 80):
        ops.append("creuse %d %d" % (rng.randrange(1 << 30), rng.randint(2, 6)))
    # restart interval given in MCU rows, around the 16-bit limit of the DRI segment (rows x MCUs per row = 65535, 65536, more)
    for (w, h, rows) in ((2048, 2064, 255), (2048, 2064, 256), (2048, 2072, 257), (8, 40, 3), (4096, 1032, 128), (4104, 1040, 127)):
        ops.append("rstrows %d %d %d 0" % (w, h, rows))
    ops.append("rstrows 2048 2064 256 1")
    for prec in (8, 12):
        for mode in (0, 1, 2, 3):
            for val in (1023, -1023, 1024, 2047, -2048, 16383, 32767, -32768):
                for pos in (-1, -2, 0, 1, 63):
                    for tk in (0, 1, 2):
                        if not big and rng.random() < .5: continue
                        ops.append("xcoef %d %d %d %d %d %d" % (prec, mode, val, pos, rng.choice([1, 3, 9, 40, 100]), tk))
    # blocks of the largest legal magnitude everywhere: the longest encoded blocks there are, enough of them to cross
    # the destination buffer boundary so that the encoder's local buffer is used
    for prec, val in ((8, 1023), (12, 16383)):
        for mode in (0, 1):
            for pos in (-1, -2):
                ops.append("xcoef %d %d %d %d %d 0" % (prec, mode, val, pos, rng.choice([60, 100, 150])))
    return ops


def search(ctx, failing_ops):
    from .. import common as C
    import random
    rng = random.Random("search/%s" % ctx["seed"])
    ops = gen_ops(rng, "quick")
    found = []
    for v, exe in ctx["exes"].items():
        res, _ = C.run_exec(exe, ops)
        for op, (R, O) in zip(ops, res):
            if O and O.startswith("fail"):
                found.append((v, op, R[:200], O))
    return found


MANIFEST = {
    "text": ("Kernel-checked Lean theorems on the block coder model: for every valid table pair and every block with coefficient magnitudes "
             "below 2^15, the encoded block plus up to 63 pending bits never needs more bytes than the local output buffer of "
             "encode_one_block (BUFSIZE, regenerated from the source), even if every byte is stuffed; every Huffman table the compressor's "
             "table builder accepts is accepted by the decompressor's; the block round-trips (C03); every scan script that validate_script "
             "(modelled line by line and tied to the real function on valid, mutated and hostile scripts) accepts as progressive is taken by "
             "the own progressive decoder without JERR_BAD_PROGRESSION and without a single JWRN_BOGUS_PROGRESSION.  The parameter space of the compression "
             "object - valid and hostile values of every settable field - is explored on the real library under ASan/UBSan with a per-call "
             "watchdog; every success must be a complete stream its own decompressor takes without warning."),
    "design_ref": "DESIGN.md 6.17",
    "note": ("Partial: of the parameter validation in jcmaster/jcinit the scan-script part is modelled and proved against the decoder's checks; the rest is exercised, not modelled. Trusted: Lean kernel; axioms propext, Quot.sound, "
             "Classical.choice; sanitizers as observers of memory safety."),
    "technique": "Lean 4 proof (bit-count induction over the block coder, table-builder agreement, scan-script validator vs decoder progression checks) + structured parameter-space exploration of the real compressor under sanitizers",
}
