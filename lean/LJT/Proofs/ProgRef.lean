import LJT.Proofs.ProgAC
import Mathlib.Tactic.Ring
/-! Round trip of the progressive AC *refinement* pass (T.81 G.1.2.3, figure G.7; src/jcphuff.c
`encode_mcu_AC_refine` with its EOBRUN counter and the BE / BR correction-bit buffers): the event
stream of `ProgAC.refEv` is inverted by `ProgAC.refDecBlocks` for every sequence of blocks. -/
namespace LJT.ProgAC
open LJT.Huff LJT.LL

/-- a coefficient as a refinement scan sees it: (|c| >> Al, c < 0) -/
abbrev C := Nat × Bool

def sgn (c : C) : Int := if c.2 then -1 else 1

/-- the value the decoder holds before the scan (bits above Al), in units of `p = 2^Al` -/
def prevOf (p : Int) (c : C) : Int := if c.1 ≤ 1 then 0 else sgn c * ((c.1 / 2 * 2 : Nat) : Int) * p

/-- the value after the scan -/
def newOf (p : Int) (c : C) : Int := sgn c * ((c.1 : Nat) : Int) * p

def zerosOf (seg : List C) : Nat := (seg.filter (fun c => c.1 == 0)).length

/-- correction bits of the coefficients with nonzero history, in order -/
def corrOf (seg : List C) : List Nat := (seg.filter (fun c => c.1 != 0)).map (fun c => c.1 % 2)

theorem zerosOf_append (a b : List C) : zerosOf (a ++ b) = zerosOf a + zerosOf b := by
  simp [zerosOf, List.filter_append]

theorem corrOf_append (a b : List C) : corrOf (a ++ b) = corrOf a ++ corrOf b := by
  simp [corrOf, List.filter_append]

theorem zerosOf_all_zero (zs : List C) (h : ∀ c ∈ zs, c.1 = 0) : zerosOf zs = zs.length := by
  unfold zerosOf
  rw [List.filter_eq_self.2]
  intro c hc; simp [h c hc]

theorem corrOf_all_zero (zs : List C) (h : ∀ c ∈ zs, c.1 = 0) : corrOf zs = [] := by
  unfold corrOf
  rw [List.filter_eq_nil_iff.2]
  · rfl
  · intro c hc; simp [h c hc]

theorem prevOf_zero (p : Int) (c : C) (h : c.1 = 0) : prevOf p c = 0 := by simp [prevOf, h]
theorem newOf_zero (p : Int) (c : C) (h : c.1 = 0) : newOf p c = 0 := by simp [newOf, h]
theorem prevOf_one (p : Int) (c : C) (h : c.1 = 1) : prevOf p c = 0 := by simp [prevOf, h]

theorem prevOf_ne (p : Int) (hp : 0 < p) (c : C) (h : 2 ≤ c.1) : prevOf p c ≠ 0 := by
  unfold prevOf
  rw [if_neg (by omega)]
  have hs : sgn c ≠ 0 := by unfold sgn; split <;> omega
  have hQ : ((c.1 / 2 * 2 : Nat) : Int) ≠ 0 := by
    have : 1 ≤ c.1 / 2 * 2 := by omega
    omega
  exact Int.mul_ne_zero (Int.mul_ne_zero hs hQ) (by omega)

/-- the correction bit turns the old value into the new one -/
theorem corr_prev (p : Int) (hp : 0 < p) (c : C) (h : 2 ≤ c.1) :
    corr p (prevOf p c) (decide (c.1 % 2 = 1)) = newOf p c := by
  obtain ⟨a, neg⟩ := c
  simp only at h ⊢
  have hq : (0 : Int) < ((a / 2 * 2 : Nat) : Int) := by
    have : 1 ≤ a / 2 * 2 := by omega
    omega
  have hsplit : ((a : Nat) : Int) = ((a / 2 * 2 : Nat) : Int) + ((a % 2 : Nat) : Int) := by
    have := Nat.div_add_mod a 2
    omega
  have hprev : prevOf p (a, neg) = (if neg = true then -1 else 1) * ((a / 2 * 2 : Nat) : Int) * p := by
    unfold prevOf sgn
    simp only
    rw [if_neg (by omega)]
  have hnew : newOf p (a, neg) = (if neg = true then -1 else 1) * ((a : Nat) : Int) * p := rfl
  rw [hprev, hnew, hsplit]
  generalize ((a / 2 * 2 : Nat) : Int) = Q at *
  have hm : 0 < Q * p := Int.mul_pos hq hp
  unfold corr
  rcases Nat.mod_two_eq_zero_or_one a with h0 | h1
  · simp [h0]
  · have hd : decide (a % 2 = 1) = true := by simp [h1]
    rw [hd, h1]
    simp only [if_true]
    cases neg with
    | true =>
      simp only [if_true]
      have e1 : (-1 : Int) * Q * p = -(Q * p) := by ring
      have e2 : (-1 : Int) * (Q + ((1 : Nat) : Int)) * p = -(Q * p) - p := by push_cast; ring
      rw [e1, e2, if_neg (by omega)]
    | false =>
      simp only [Bool.false_eq_true, if_false]
      have e1 : (1 : Int) * Q * p = Q * p := by ring
      have e2 : (1 : Int) * (Q + ((1 : Nat) : Int)) * p = Q * p + p := by push_cast; ring
      rw [e1, e2, if_pos (by omega)]

/-- bits of buffered correction bits -/
theorem evBits_brEv (code : Nat → List Bool) (br : List Nat) (X : List Bool) :
    evBits code (brEv br) ++ X = br.map (fun b => decide (b % 2 = 1)) ++ X := by
  induction br with
  | nil => rfl
  | cons b t ih =>
    simp only [brEv, List.map_cons, evBits] at ih ⊢
    rw [List.append_assoc, ih]
    simp [natBits, codeBits]

theorem evBits_brEv' (code : Nat → List Bool) (br : List Nat) :
    evBits code (brEv br) = br.map (fun b => decide (b % 2 = 1)) := by
  have := evBits_brEv code br []
  simpa using this

/-- correction bits of a segment as the decoder reads them -/
def corrBits (seg : List C) : List Bool := (corrOf seg).map (fun b => decide (b % 2 = 1))

theorem corrBits_append (a b : List C) : corrBits (a ++ b) = corrBits a ++ corrBits b := by
  simp [corrBits, corrOf_append]

/-! ### the decoder's passes over segments without newly-nonzero coefficients -/

/-- `refTail` over a segment: every nonzero-history coefficient takes its correction bit -/
theorem refTail_seg (p : Int) (hp : 0 < p) : ∀ (seg : List C) (X : List Bool), (∀ c ∈ seg, c.1 ≠ 1) →
    refTail p (seg.map (prevOf p)) (corrBits seg ++ X) = some (seg.map (newOf p), X) := by
  intro seg
  induction seg with
  | nil => intro X _; rfl
  | cons c t ih =>
    intro X h
    have ht : ∀ x ∈ t, x.1 ≠ 1 := fun x hx => h x (by simp [hx])
    have hc := h c (by simp)
    by_cases h0 : c.1 = 0
    · have hcb : corrBits (c :: t) = corrBits t := by simp [corrBits, corrOf, h0]
      simp only [List.map_cons, refTail, prevOf_zero p c h0, ne_eq, not_true_eq_false, if_false, hcb]
      rw [ih X ht]; simp [newOf_zero p c h0]
    · have h2 : 2 ≤ c.1 := by omega
      have hcb : corrBits (c :: t) = decide (c.1 % 2 = 1) :: corrBits t := by
        simp [corrBits, corrOf, h0]
      simp only [List.map_cons, refTail, hcb, List.cons_append]
      rw [if_pos (prevOf_ne p hp c h2), ih X ht]
      simp [corr_prev p hp c h2]

/-- `refSkip` passes a whole segment when it may skip at least as many zeros as the segment has -/
theorem refSkip_seg (p : Int) (hp : 0 < p) : ∀ (seg : List C) (k : Nat) (rest' : List Int) (X : List Bool),
    (∀ c ∈ seg, c.1 ≠ 1) → zerosOf seg ≤ k →
    refSkip p k (seg.map (prevOf p) ++ rest') (corrBits seg ++ X) =
      (refSkip p (k - zerosOf seg) rest' X).map (fun x => (seg.map (newOf p) ++ x.1, x.2.1, x.2.2)) := by
  intro seg
  induction seg with
  | nil =>
    intro k rest' X _ _
    simp only [List.map_nil, List.nil_append, corrBits, corrOf, List.filter_nil, zerosOf, List.length_nil, Nat.sub_zero]
    cases refSkip p k rest' X <;> simp
  | cons c t ih =>
    intro k rest' X h hk
    have ht : ∀ x ∈ t, x.1 ≠ 1 := fun x hx => h x (by simp [hx])
    have hc := h c (by simp)
    by_cases h0 : c.1 = 0
    · have hcb : corrBits (c :: t) = corrBits t := by simp [corrBits, corrOf, h0]
      have hz : zerosOf (c :: t) = zerosOf t + 1 := by simp [zerosOf, h0]
      rw [hz] at hk ⊢
      simp only [List.map_cons, List.cons_append, refSkip, prevOf_zero p c h0, ne_eq, not_true_eq_false, if_false, hcb]
      rw [if_neg (by omega), ih (k - 1) rest' X ht (by omega), show k - 1 - zerosOf t = k - (zerosOf t + 1) by omega]
      cases refSkip p (k - (zerosOf t + 1)) rest' X <;> simp [newOf_zero p c h0]
    · have h2 : 2 ≤ c.1 := by omega
      have hcb : corrBits (c :: t) = decide (c.1 % 2 = 1) :: corrBits t := by
        simp [corrBits, corrOf, h0]
      have hz : zerosOf (c :: t) = zerosOf t := by simp [zerosOf, h0]
      rw [hz] at hk ⊢
      simp only [List.map_cons, List.cons_append, refSkip, hcb]
      rw [if_pos (prevOf_ne p hp c h2), ih k rest' X ht hk]
      cases refSkip p (k - zerosOf t) rest' X <;> simp [corr_prev p hp c h2]

/-- skipping `k` of `m > k` zero-history coefficients stops at the next one -/
theorem refSkip_zeros (p : Int) : ∀ (k m : Nat) (rest' : List Int) (X : List Bool), k < m →
    refSkip p k (List.replicate m 0 ++ rest') X = some (List.replicate k 0, List.replicate (m - k) 0 ++ rest', X) := by
  intro k
  induction k with
  | zero =>
    intro m rest' X h
    obtain ⟨q, rfl⟩ : ∃ q, m = q + 1 := ⟨m - 1, by omega⟩
    simp [List.replicate_succ, refSkip]
  | succ k ih =>
    intro m rest' X h
    obtain ⟨q, rfl⟩ : ∃ q, m = q + 1 := ⟨m - 1, by omega⟩
    simp only [List.replicate_succ, List.cons_append, refSkip, ne_eq, not_true_eq_false, if_false]
    rw [if_neg (by omega), Nat.add_sub_cancel, ih q rest' X (by omega)]
    simp [List.replicate_succ]

/-! ### single steps of the refinement decoder -/

theorem refDec_succ (dec : Dec) (p : Int) (f : Nat) (prev : List Int) (bits : List Bool) :
    refDec dec p (f + 1) prev bits =
      if prev.isEmpty then .ok ([], 0, bits) else
      match dec bits with
      | none => .error "AC refinement: bad Huffman code"
      | some (_, true, _) => .error "AC refinement: bit pattern that is no code of the table"
      | some (sym, false, rest) =>
        if sym % 16 ≠ 0 then
          if sym % 16 ≠ 1 then .error "AC refinement: size must be 1"
          else
            match rest with
            | [] => .error "AC refinement: out of data"
            | b :: rest2 =>
              match refSkip p (sym / 16) prev rest2 with
              | none => .error "AC refinement: out of data"
              | some (_, [], _) => .error "AC refinement: run beyond band"
              | some (done, _ :: t, bs) =>
                match refDec dec p f t bs with
                | .error e => .error e
                | .ok (l, e, b') => .ok (done ++ (if b then p else -p) :: l, e, b')
        else if sym / 16 = 15 then
          match refSkip p 15 prev rest with
          | none => .error "AC refinement: out of data"
          | some (_, [], _) => .error "AC refinement: ZRL beyond band"
          | some (done, z :: t, bs) =>
            match refDec dec p f t bs with
            | .error e => .error e
            | .ok (l, e, b') => .ok (done ++ z :: l, e, b')
        else
          match readEob (sym / 16) rest with
          | none => .error "AC refinement: out of data"
          | some (run, rest2) =>
            match refTail p prev rest2 with
            | none => .error "AC refinement: out of data"
            | some (done, bs) => .ok (done, run - 1, bs) := by
  rfl

theorem refDec_nil (dec : Dec) (p : Int) (f : Nat) (bits : List Bool) : refDec dec p f [] bits = .ok ([], 0, bits) := by
  cases f <;> simp [refDec]

theorem refSkip_len (p : Int) : ∀ (l : List Int) (r : Nat) (bits : List Bool) (d rem : List Int) (bs : List Bool),
    refSkip p r l bits = some (d, rem, bs) → rem.length ≤ l.length := by
  intro l
  induction l with
  | nil => intro r bits d rem bs h; simp [refSkip] at h; simp [h.2.1]
  | cons c t ih =>
    intro r bits d rem bs h
    unfold refSkip at h
    by_cases hc : c ≠ 0
    · rw [if_pos hc] at h
      cases bits with
      | nil => simp at h
      | cons b rest =>
        simp only at h
        cases hr : refSkip p r t rest with
        | none => simp [hr] at h
        | some x =>
          obtain ⟨d', rem', bs'⟩ := x
          simp [hr] at h
          have := ih r rest d' rem' bs' hr
          rw [← h.2.1]; simp; omega
    · rw [if_neg hc] at h
      by_cases hr0 : r = 0
      · rw [if_pos hr0] at h
        simp at h
        rw [← h.2.1]
      · rw [if_neg hr0] at h
        cases hr : refSkip p (r - 1) t bits with
        | none => simp [hr] at h
        | some x =>
          obtain ⟨d', rem', bs'⟩ := x
          simp [hr] at h
          have := ih (r - 1) bits d' rem' bs' hr
          rw [← h.2.1]; simp; omega

/-- fuel beyond the length of the band is irrelevant -/
theorem refDec_fuel (dec : Dec) (p : Int) : ∀ (f1 f2 : Nat) (prev : List Int) (bits : List Bool),
    prev.length < f1 → prev.length < f2 → refDec dec p f1 prev bits = refDec dec p f2 prev bits := by
  intro f1
  induction f1 with
  | zero => intro f2 prev bits h; omega
  | succ f1 ih =>
    intro f2 prev bits h1 h2
    obtain ⟨g, rfl⟩ : ∃ g, f2 = g + 1 := ⟨f2 - 1, by omega⟩
    rw [refDec_succ, refDec_succ]
    by_cases he : prev.isEmpty
    · simp [he]
    · simp only [he, Bool.false_eq_true, if_false]
      cases hd : dec bits with
      | none => rfl
      | some x =>
        obtain ⟨sym, flag, rest⟩ := x
        cases flag with
        | true => rfl
        | false =>
          simp only
          by_cases hs : sym % 16 ≠ 0
          · rw [if_pos hs, if_pos hs]
            by_cases hs1 : sym % 16 ≠ 1
            · rw [if_pos hs1, if_pos hs1]
            · rw [if_neg hs1, if_neg hs1]
              cases rest with
              | nil => rfl
              | cons b rest2 =>
                simp only
                cases hk : refSkip p (sym / 16) prev rest2 with
                | none => rfl
                | some y =>
                  obtain ⟨done, rem, bs⟩ := y
                  cases rem with
                  | nil => rfl
                  | cons z t =>
                    simp only
                    have hl := refSkip_len p prev _ _ _ _ _ hk
                    simp at hl
                    rw [ih g t bs (by omega) (by omega)]
          · rw [if_neg hs, if_neg hs]
            by_cases h15 : sym / 16 = 15
            · rw [if_pos h15, if_pos h15]
              cases hk : refSkip p 15 prev rest with
              | none => rfl
              | some y =>
                obtain ⟨done, rem, bs⟩ := y
                cases rem with
                | nil => rfl
                | cons z t =>
                  simp only
                  have hl := refSkip_len p prev _ _ _ _ _ hk
                  simp at hl
                  rw [ih g t bs (by omega) (by omega)]
            · rw [if_neg h15, if_neg h15]

theorem map_prev_zeros (p : Int) (zs : List C) (h : ∀ c ∈ zs, c.1 = 0) : zs.map (prevOf p) = List.replicate zs.length 0 := by
  induction zs with
  | nil => rfl
  | cons c t ih =>
    rw [List.map_cons, prevOf_zero p c (h c (by simp)), ih (fun x hx => h x (by simp [hx]))]
    simp [List.replicate_succ]

theorem map_new_zeros (p : Int) (zs : List C) (h : ∀ c ∈ zs, c.1 = 0) : zs.map (newOf p) = List.replicate zs.length 0 := by
  induction zs with
  | nil => rfl
  | cons c t ih =>
    rw [List.map_cons, newOf_zero p c (h c (by simp)), ih (fun x hx => h x (by simp [hx]))]
    simp [List.replicate_succ]

/-- a ZRL symbol followed by the correction bits of the coefficients it passes: the decoder
refines `s1`, skips zeros up to and including the 16th, and goes on with what is left -/
theorem ref_zrl1 (code : Nat → List Bool) (dec : Dec) (p : Int) (hp : 0 < p) (hz : Good code dec 0xF0)
    (s1 : List C) (m : Nat) (R : List Int) (Y : List Bool) (f : Nat) (l : List Int) (e : Nat) (b : List Bool)
    (h1 : ∀ c ∈ s1, c.1 ≠ 1) (hz1 : zerosOf s1 ≤ 15) (hm : 16 ≤ zerosOf s1 + m)
    (hcont : refDec dec p f (List.replicate (zerosOf s1 + m - 16) 0 ++ R) Y = .ok (l, e, b)) :
    refDec dec p (f + 1) (s1.map (prevOf p) ++ (List.replicate m 0 ++ R)) (code 0xF0 ++ (corrBits s1 ++ Y)) =
      .ok (s1.map (newOf p) ++ (List.replicate (16 - zerosOf s1) 0 ++ l), e, b) := by
  have hne : (s1.map (prevOf p) ++ (List.replicate m 0 ++ R)).isEmpty = false := by
    obtain ⟨q, rfl⟩ : ∃ q, m = q + 1 := ⟨m - 1, by omega⟩
    cases s1 <;> simp [List.replicate_succ]
  rw [refDec_succ, hne]
  simp only [Bool.false_eq_true, if_false]
  rw [hz]
  simp only [show (0xF0 : Nat) % 16 = 0 by decide, show (0xF0 : Nat) / 16 = 15 by decide, ne_eq, not_true_eq_false,
    if_false, if_true]
  rw [refSkip_seg p hp s1 15 _ Y h1 hz1, refSkip_zeros p (15 - zerosOf s1) m R Y (by omega)]
  simp only [Option.map_some]
  obtain ⟨q, hq⟩ : ∃ q, m - (15 - zerosOf s1) = q + 1 := ⟨m - (15 - zerosOf s1) - 1, by omega⟩
  rw [hq, List.replicate_succ]
  simp only [List.cons_append]
  rw [show q = zerosOf s1 + m - 16 by omega, hcont]
  simp only
  congr 2
  rw [List.append_assoc]
  congr 1
  rw [show 16 - zerosOf s1 = (15 - zerosOf s1) + 1 by omega, List.replicate_succ', List.append_assoc]
  rfl

/-- further ZRL symbols over zeros only -/
theorem ref_zrln (code : Nat → List Bool) (dec : Dec) (p : Int) (hp : 0 < p) (hz : Good code dec 0xF0) :
    ∀ (n m : Nat) (R : List Int) (Y : List Bool) (f : Nat) (l : List Int) (e : Nat) (b : List Bool),
      refDec dec p f (List.replicate m 0 ++ R) Y = .ok (l, e, b) →
      refDec dec p (f + n) (List.replicate (16 * n + m) 0 ++ R) (evBits code (List.replicate n (.sym 0xF0)) ++ Y) =
        .ok (List.replicate (16 * n) 0 ++ l, e, b) := by
  intro n
  induction n with
  | zero => intro m R Y f l e b h; simpa [evBits] using h
  | succ k ih =>
    intro m R Y f l e b h
    have hih := ih m R Y f l e b h
    have := ref_zrl1 code dec p hp hz [] (16 * (k + 1) + m) R (evBits code (List.replicate k (.sym 0xF0)) ++ Y) (f + k)
      (List.replicate (16 * k) 0 ++ l) e b (by simp) (by simp [zerosOf]) (by simp [zerosOf]; omega)
      (by simp only [zerosOf, List.filter_nil, List.length_nil, Nat.zero_add]
          rw [show 16 * (k + 1) + m - 16 = 16 * k + m by omega]; exact hih)
    simp only [List.map_nil, List.nil_append, corrBits, corrOf, List.filter_nil, zerosOf, List.length_nil, Nat.sub_zero] at this
    rw [show List.replicate (k + 1) (Ev.sym 0xF0) = Ev.sym 0xF0 :: List.replicate k (Ev.sym 0xF0) from List.replicate_succ]
    simp only [evBits, List.append_assoc]
    rw [show f + (k + 1) = f + k + 1 by omega, this]
    rw [← List.append_assoc, List.replicate_append_replicate, show 16 + 16 * k = 16 * (k + 1) by omega]

/-- the symbol of a newly-nonzero coefficient: run, sign bit, then the correction bits of the
coefficients passed on the way -/
theorem ref_new (code : Nat → List Bool) (dec : Dec) (p : Int) (hp : 0 < p)
    (s : List C) (neg : Bool) (R : List Int) (Y : List Bool) (f : Nat) (l : List Int) (e : Nat) (b : List Bool)
    (h1 : ∀ c ∈ s, c.1 ≠ 1) (hr : zerosOf s ≤ 15) (hg : Good code dec (zerosOf s * 16 + 1))
    (hcont : refDec dec p f R Y = .ok (l, e, b)) :
    refDec dec p (f + 1) (s.map (prevOf p) ++ (0 :: R))
      (code (zerosOf s * 16 + 1) ++ (natBits (if neg then 0 else 1) 1 ++ (corrBits s ++ Y))) =
      .ok (s.map (newOf p) ++ (newOf p (1, neg) :: l), e, b) := by
  have hne : (s.map (prevOf p) ++ (0 :: R)).isEmpty = false := by cases s <;> simp
  rw [refDec_succ, hne]
  simp only [Bool.false_eq_true, if_false]
  rw [hg]
  have hq : (zerosOf s * 16 + 1) / 16 = zerosOf s := by omega
  have hm : (zerosOf s * 16 + 1) % 16 = 1 := by omega
  simp only [hq, hm, ne_eq, one_ne_zero, not_false_eq_true, if_true, not_true_eq_false, if_false]
  have hsign : natBits (if neg = true then 0 else 1) 1 = [!neg] := by
    cases neg <;> simp [natBits, codeBits]
  rw [hsign]
  simp only [List.cons_append, List.nil_append]
  rw [refSkip_seg p hp s (zerosOf s) (0 :: R) Y h1 (Nat.le_refl _), Nat.sub_self]
  simp only [refSkip, ne_eq, not_true_eq_false, if_false, if_true, Option.map_some, List.append_nil]
  rw [hcont]
  simp only
  congr 3
  cases neg <;> simp [newOf, sgn]

/-- the EOBn symbol inside a band: the rest of the band takes its correction bits -/
theorem ref_eob (code : Nat → List Bool) (dec : Dec) (p : Int) (hp : 0 < p)
    (seg : List C) (e : Nat) (Y : List Bool) (f : Nat)
    (h1 : ∀ c ∈ seg, c.1 ≠ 1) (hne : seg ≠ []) (h0 : 1 ≤ e) (he : e < 32768) (hg : GoodEvs code dec (eobEv e)) :
    refDec dec p (f + 1) (seg.map (prevOf p)) (evBits code (eobEv e) ++ (corrBits seg ++ Y)) =
      .ok (seg.map (newOf p), e - 1, Y) := by
  have hemp : (seg.map (prevOf p)).isEmpty = false := by cases seg <;> simp at hne ⊢
  have he0 : e ≠ 0 := by omega
  have hk := log2_lt_15 e he0 he
  rw [refDec_succ, hemp]
  simp only [Bool.false_eq_true, if_false]
  rw [evBits_eobEv code e he0, List.append_assoc, hg _ (eobEv_sym e he0)]
  simp only [Nat.mul_mod_left, ne_eq, not_true_eq_false, if_false]
  rw [Nat.mul_div_cancel _ (by omega : 0 < 16), if_neg (by omega), readEob_eob e he0]
  simp only
  rw [refTail_seg p hp seg Y h1]

/-! ### the encoder's events for one band -/

theorem hasOne_cons (c : C) (t : List C) : hasOne (c :: t) = (c.1 == 1 || hasOne t) := by
  simp [hasOne]

/-- without a newly-nonzero coefficient ahead nothing is emitted: zeros and correction bits pile up -/
theorem refCoefEv_quiet : ∀ (cs : List C) (r : Nat) (br : List Nat), hasOne cs = false →
    refCoefEv r br cs = ([], r + zerosOf cs, br ++ corrOf cs) := by
  intro cs
  induction cs with
  | nil => intro r br _; simp [refCoefEv, zerosOf, corrOf]
  | cons c t ih =>
    intro r br h
    rw [hasOne_cons] at h
    simp only [Bool.or_eq_false_iff, beq_eq_false_iff_ne, ne_eq] at h
    by_cases h0 : c.1 = 0
    · simp only [refCoefEv, h0, if_true]
      rw [ih (r + 1) br h.2]
      simp [zerosOf, corrOf, h0]; omega
    · have h2 : c.1 > 1 := by omega
      have hh : hasOne (c :: t) = false := by rw [hasOne_cons]; simp [h.1, h.2]
      simp only [refCoefEv, h0, if_false, hh, Bool.false_eq_true, if_true, h2, Nat.mul_zero, Nat.sub_zero, List.nil_append]
      rw [ih r (br ++ [c.1 % 2]) h.2]
      simp [zerosOf, corrOf, h0]

/-- events of a ZRL chain: the first ZRL carries the buffered correction bits -/
def zrlEv (n : Nat) (br : List Nat) : List Ev :=
  if n = 0 then [] else (Ev.sym 0xF0 :: brEv br) ++ List.replicate (n - 1) (Ev.sym 0xF0)

theorem refCoefEv_hist (r : Nat) (br : List Nat) (c : C) (t : List C) (ha : 2 ≤ c.1) (hone : hasOne t = true) :
    refCoefEv r br (c :: t) =
      (zrlEv (r / 16) br ++ (refCoefEv (r % 16) ((if r / 16 = 0 then br else []) ++ [c.1 % 2]) t).1,
       (refCoefEv (r % 16) ((if r / 16 = 0 then br else []) ++ [c.1 % 2]) t).2) := by
  have hh : hasOne (c :: t) = true := by rw [hasOne_cons]; simp [hone]
  have hr : r - 16 * (r / 16) = r % 16 := by omega
  simp only [refCoefEv, show ¬ c.1 = 0 by omega, if_false, hh, if_true, show c.1 > 1 by omega, hr, zrlEv]

theorem refCoefEv_new (r : Nat) (br : List Nat) (c : C) (t : List C) (ha : c.1 = 1) :
    refCoefEv r br (c :: t) =
      (zrlEv (r / 16) br ++ ((Ev.sym (r % 16 * 16 + 1) :: Ev.bits (if c.2 then 0 else 1) 1 :: brEv (if r / 16 = 0 then br else [])) ++
        (refCoefEv 0 [] t).1), (refCoefEv 0 [] t).2) := by
  have hh : hasOne (c :: t) = true := by rw [hasOne_cons]; simp [ha]
  have hr : r - 16 * (r / 16) = r % 16 := by omega
  simp only [refCoefEv, show ¬ c.1 = 0 by omega, if_false, hh, if_true, show ¬ c.1 > 1 by omega, hr, zrlEv]

/-- the decoder over a ZRL chain: `s1` refined, `16 n - zeros(s1)` zeros skipped -/
theorem ref_zrl_chain (code : Nat → List Bool) (dec : Dec) (p : Int) (hp : 0 < p) (hz : Good code dec 0xF0)
    (s1 : List C) (m : Nat) (R : List Int) (Y : List Bool) (f : Nat) (l : List Int) (e : Nat) (b : List Bool)
    (h1 : ∀ c ∈ s1, c.1 ≠ 1) (hz1 : zerosOf s1 ≤ 15) (hn : 1 ≤ (zerosOf s1 + m) / 16)
    (hcont : refDec dec p f (List.replicate ((zerosOf s1 + m) % 16) 0 ++ R) Y = .ok (l, e, b)) :
    refDec dec p (f + (zerosOf s1 + m) / 16) (s1.map (prevOf p) ++ (List.replicate m 0 ++ R))
      (evBits code (zrlEv ((zerosOf s1 + m) / 16) (corrOf s1)) ++ Y) =
      .ok (s1.map (newOf p) ++ (List.replicate (16 * ((zerosOf s1 + m) / 16) - zerosOf s1) 0 ++ l), e, b) := by
  generalize hr : zerosOf s1 + m = r at *
  obtain ⟨n, hn'⟩ : ∃ n, r / 16 = n + 1 := ⟨r / 16 - 1, by omega⟩
  have hrest := ref_zrln code dec p hp hz n (r % 16) R Y f l e b hcont
  have h1st := ref_zrl1 code dec p hp hz s1 m R (evBits code (List.replicate n (.sym 0xF0)) ++ Y) (f + n)
    (List.replicate (16 * n) 0 ++ l) e b h1 hz1 (by omega)
    (by rw [hr, show r - 16 = 16 * n + r % 16 by omega]; exact hrest)
  rw [hn']
  unfold zrlEv
  rw [if_neg (by omega), Nat.add_sub_cancel, evBits_append]
  simp only [evBits, List.append_assoc]
  rw [evBits_brEv code (corrOf s1)]
  rw [show f + (n + 1) = f + n + 1 by omega]
  have hcb : corrBits s1 = (corrOf s1).map (fun b => decide (b % 2 = 1)) := rfl
  rw [← hcb, h1st]
  congr 2
  congr 1
  rw [← List.append_assoc, List.replicate_append_replicate]
  congr 2
  omega

/-! ### one band: encoder events against the decoder -/

/-- `evs` (emitted while the encoder went over `whole`) lets the decoder reconstruct a prefix `done`
of `whole`; the encoder is left with the pending segment `pend` described by `st = (r, br)` -/
def RefOK (code : Nat → List Bool) (dec : Dec) (p : Int) (whole : List C) (evs : List Ev) (st : Nat × List Nat) : Prop :=
  ∃ done pend, whole = done ++ pend ∧ (∀ c ∈ pend, c.1 ≠ 1) ∧ st = (zerosOf pend, corrOf pend) ∧
    ∀ (f : Nat) (X : List Bool) (l : List Int) (e : Nat) (b : List Bool), whole.length < f →
      refDec dec p f (pend.map (prevOf p)) X = .ok (l, e, b) →
      refDec dec p f (whole.map (prevOf p)) (evBits code evs ++ X) = .ok (done.map (newOf p) ++ l, e, b)

/-- a group of symbols `pre` makes the decoder reconstruct `d0` in `k` steps and go on with `whole'` -/
def StepOK (code : Nat → List Bool) (dec : Dec) (p : Int) (d0 whole' : List C) (pre : List Ev) (k : Nat) : Prop :=
  ∀ (f : Nat) (Y : List Bool) (l : List Int) (e : Nat) (b : List Bool),
    refDec dec p f (whole'.map (prevOf p)) Y = .ok (l, e, b) →
    refDec dec p (f + k) ((d0 ++ whole').map (prevOf p)) (evBits code pre ++ Y) = .ok (d0.map (newOf p) ++ l, e, b)

theorem RefOK.prefix {code : Nat → List Bool} {dec : Dec} {p : Int} {d0 whole' : List C} {pre evs' : List Ev} {k : Nat}
    {st : Nat × List Nat} (hs : StepOK code dec p d0 whole' pre k) (hk : k ≤ d0.length)
    (h : RefOK code dec p whole' evs' st) : RefOK code dec p (d0 ++ whole') (pre ++ evs') st := by
  obtain ⟨done, pend, hw, hp1, hst, hdec⟩ := h
  refine ⟨d0 ++ done, pend, by rw [hw, List.append_assoc], hp1, hst, ?_⟩
  intro f X l e b hf hcont
  have hlen : pend.length ≤ whole'.length := by rw [hw]; simp
  have hf' : whole'.length < f - k := by simp at hf; omega
  have hc' : refDec dec p (f - k) (pend.map (prevOf p)) X = .ok (l, e, b) := by
    rw [refDec_fuel dec p (f - k) f _ X (by simp; omega) (by simp at hf ⊢; omega)]; exact hcont
  have h1 := hdec (f - k) X l e b hf' hc'
  have h2 := hs (f - k) (evBits code evs' ++ X) _ e b h1
  rw [show f - k + k = f by simp at hf; omega] at h2
  rw [evBits_append, List.append_assoc, h2, List.map_append, List.append_assoc]

theorem hasOne_false_ne (t : List C) (h : hasOne t = false) : ∀ c ∈ t, c.1 ≠ 1 := by
  intro c hc h1
  have : hasOne t = true := by
    unfold hasOne
    rw [List.any_eq_true]
    exact ⟨c, hc, by simp [h1]⟩
  rw [h] at this; cases this

/-- nothing emitted: the whole list stays pending -/
theorem RefOK.quiet (code : Nat → List Bool) (dec : Dec) (p : Int) (t : List C) (h : ∀ c ∈ t, c.1 ≠ 1) :
    RefOK code dec p t [] (zerosOf t, corrOf t) :=
  ⟨[], t, rfl, h, rfl, fun f X l e b _ hc => by simpa [evBits] using hc⟩

theorem take_drop_zeros (zs : List C) (h : ∀ c ∈ zs, c.1 = 0) (k : Nat) :
    (∀ c ∈ zs.take k, c.1 = 0) ∧ (∀ c ∈ zs.drop k, c.1 = 0) :=
  ⟨fun c hc => h c (List.mem_of_mem_take hc), fun c hc => h c (List.mem_of_mem_drop hc)⟩

theorem ne_one_of_zero (zs : List C) (h : ∀ c ∈ zs, c.1 = 0) : ∀ c ∈ zs, c.1 ≠ 1 := by
  intro c hc; rw [h c hc]; omega

/-- the ZRL chain as a step: it consumes `s1` and the first `16 n - zeros(s1)` of the zeros `zs` -/
theorem step_zrl (code : Nat → List Bool) (dec : Dec) (p : Int) (hp : 0 < p) (hz : Good code dec 0xF0)
    (s1 zs rest : List C) (h1 : ∀ c ∈ s1, c.1 ≠ 1) (hzs : ∀ c ∈ zs, c.1 = 0) (hz1 : zerosOf s1 ≤ 15)
    (hn : 1 ≤ (zerosOf s1 + zs.length) / 16) :
    StepOK code dec p (s1 ++ zs.take (16 * ((zerosOf s1 + zs.length) / 16) - zerosOf s1))
      (zs.drop (16 * ((zerosOf s1 + zs.length) / 16) - zerosOf s1) ++ rest)
      (zrlEv ((zerosOf s1 + zs.length) / 16) (corrOf s1)) ((zerosOf s1 + zs.length) / 16) := by
  intro f Y l e b hcont
  generalize hk : 16 * ((zerosOf s1 + zs.length) / 16) - zerosOf s1 = k at *
  have hkm : k ≤ zs.length := by omega
  obtain ⟨htz, hdz⟩ := take_drop_zeros zs hzs k
  have hdl : (zs.drop k).length = (zerosOf s1 + zs.length) % 16 := by simp; omega
  have htl : (zs.take k).length = k := by simp; omega
  have hwhole : (s1 ++ zs.take k ++ (zs.drop k ++ rest)).map (prevOf p) =
      s1.map (prevOf p) ++ (List.replicate zs.length 0 ++ rest.map (prevOf p)) := by
    rw [show s1 ++ zs.take k ++ (zs.drop k ++ rest) = s1 ++ (zs ++ rest) by
      rw [List.append_assoc, ← List.append_assoc (zs.take k), List.take_append_drop]]
    rw [List.map_append, List.map_append, map_prev_zeros p zs hzs]
  have hc2 : refDec dec p f (List.replicate ((zerosOf s1 + zs.length) % 16) 0 ++ rest.map (prevOf p)) Y = .ok (l, e, b) := by
    rw [List.map_append, map_prev_zeros p _ hdz, hdl] at hcont; exact hcont
  have := ref_zrl_chain code dec p hp hz s1 zs.length (rest.map (prevOf p)) Y f l e b h1 hz1 hn hc2
  rw [hwhole, this, hk, List.map_append, map_new_zeros p _ htz, htl, List.append_assoc]

/-- the symbol of a newly-nonzero coefficient as a step -/
theorem step_new (code : Nat → List Bool) (dec : Dec) (p : Int) (hp : 0 < p)
    (s : List C) (c : C) (t : List C) (h1 : ∀ x ∈ s, x.1 ≠ 1) (hr : zerosOf s ≤ 15) (hc : c.1 = 1)
    (hg : Good code dec (zerosOf s * 16 + 1)) :
    StepOK code dec p (s ++ [c]) t
      (Ev.sym (zerosOf s * 16 + 1) :: Ev.bits (if c.2 then 0 else 1) 1 :: brEv (corrOf s)) 1 := by
  intro f Y l e b hcont
  have := ref_new code dec p hp s c.2 (t.map (prevOf p)) Y f l e b h1 hr hg hcont
  have hwhole : (s ++ ([c] ++ t)).map (prevOf p) = s.map (prevOf p) ++ (0 :: t.map (prevOf p)) := by
    simp [prevOf_one p c hc]
  have hcn : newOf p (1, c.2) = newOf p c := by
    obtain ⟨a, n⟩ := c; simp only at hc; subst hc; rfl
  simp only [evBits, List.append_assoc]
  rw [evBits_brEv code (corrOf s)]
  have hcb : corrBits s = (corrOf s).map (fun b => decide (b % 2 = 1)) := rfl
  rw [hwhole, ← hcb, this, hcn]
  simp

theorem zerosOf_single_ne (c : C) (h : ¬ c.1 = 0) : zerosOf [c] = 0 := by simp [zerosOf, h]

theorem zerosOf_le_length (s : List C) : zerosOf s ≤ s.length := by
  unfold zerosOf; exact List.length_filter_le _ _

theorem split_zs (s1 zs rest : List C) (k : Nat) : s1 ++ zs ++ rest = s1 ++ zs.take k ++ (zs.drop k ++ rest) := by
  rw [List.append_assoc s1 (zs.take k), ← List.append_assoc (zs.take k), List.take_append_drop, List.append_assoc]

theorem zrlEv_mem (n : Nat) (br : List Nat) (h : 1 ≤ n) : Ev.sym 0xF0 ∈ zrlEv n br := by
  unfold zrlEv; rw [if_neg (by omega)]; simp

theorem zrlEv_zero (br : List Nat) : zrlEv 0 br = [] := by simp [zrlEv]

/-- **one band of a refinement scan**: from a state in which the encoder holds the pending segment
`s1 ++ zs` (coefficients with history and at most 15 zeros, then zeros only) and a newly-nonzero
coefficient is still ahead -/
theorem ref_coefs (code : Nat → List Bool) (dec : Dec) (p : Int) (hp : 0 < p) :
    ∀ (cs s1 zs : List C), (∀ c ∈ s1, c.1 ≠ 1) → (∀ c ∈ zs, c.1 = 0) → zerosOf s1 ≤ 15 → hasOne cs = true →
      GoodEvs code dec (refCoefEv (zerosOf s1 + zs.length) (corrOf s1) cs).1 →
      RefOK code dec p (s1 ++ zs ++ cs) (refCoefEv (zerosOf s1 + zs.length) (corrOf s1) cs).1
        (refCoefEv (zerosOf s1 + zs.length) (corrOf s1) cs).2 := by
  intro cs
  induction cs with
  | nil => intro s1 zs _ _ _ h; simp [hasOne] at h
  | cons c t ih =>
    intro s1 zs h1 hzs hz1 hone hg
    -- the statement for what follows a newly-nonzero coefficient
    have tail : GoodEvs code dec (refCoefEv 0 [] t).1 → RefOK code dec p t (refCoefEv 0 [] t).1 (refCoefEv 0 [] t).2 := by
      intro hgt
      by_cases ht : hasOne t = true
      · have := ih [] [] (by simp) (by simp) (by simp [zerosOf]) ht (by simpa [zerosOf, corrOf] using hgt)
        simpa [zerosOf, corrOf] using this
      · have ht' : hasOne t = false := by simpa using ht
        rw [refCoefEv_quiet t 0 [] ht']
        simpa using RefOK.quiet code dec p t (hasOne_false_ne t ht')
    have hzz : zerosOf zs = zs.length := zerosOf_all_zero zs hzs
    have hcz : corrOf zs = [] := corrOf_all_zero zs hzs
    by_cases h0 : c.1 = 0
    · -- a zero: the run grows
      have hone' : hasOne t = true := by rw [hasOne_cons] at hone; simpa [h0] using hone
      have hev : refCoefEv (zerosOf s1 + zs.length) (corrOf s1) (c :: t) =
          refCoefEv (zerosOf s1 + (zs ++ [c]).length) (corrOf s1) t := by
        simp only [refCoefEv, h0, if_true, List.length_append, List.length_singleton, Nat.add_assoc]
      rw [hev] at hg ⊢
      have := ih s1 (zs ++ [c]) h1 (by intro x hx; simp at hx; rcases hx with hx | rfl; exact hzs x hx; exact h0) hz1 hone' hg
      rw [show s1 ++ zs ++ c :: t = s1 ++ (zs ++ [c]) ++ t by simp]
      exact this
    · by_cases ha : 2 ≤ c.1
      · -- a coefficient with history
        have hone' : hasOne t = true := by
          rw [hasOne_cons] at hone
          simpa [show ¬ c.1 = 1 by omega] using hone
        rw [refCoefEv_hist _ _ c t ha hone'] at hg ⊢
        by_cases hnz : (zerosOf s1 + zs.length) / 16 = 0
        · rw [hnz, zrlEv_zero] at hg ⊢
          simp only [if_true, List.nil_append] at hg ⊢
          have hr : (zerosOf s1 + zs.length) % 16 = zerosOf s1 + zs.length := by omega
          have hs1' : ∀ x ∈ s1 ++ zs ++ [c], x.1 ≠ 1 := by
            intro x hx; simp at hx
            rcases hx with hx | hx | rfl
            · exact h1 x hx
            · rw [hzs x hx]; omega
            · omega
          have hzq : zerosOf (s1 ++ zs ++ [c]) + ([] : List C).length = (zerosOf s1 + zs.length) % 16 := by
            rw [zerosOf_append, zerosOf_append, hzz, hr, zerosOf_single_ne c h0, List.length_nil]; omega
          have hcq : corrOf (s1 ++ zs ++ [c]) = corrOf s1 ++ [c.1 % 2] := by
            rw [corrOf_append, corrOf_append, hcz]; simp [corrOf, h0]
          have := ih (s1 ++ zs ++ [c]) [] hs1' (by simp) (by omega) hone' (by rw [hzq, hcq]; exact hg)
          rw [hzq, hcq] at this
          simpa using this
        · -- ZRLs first
          have hn : 1 ≤ (zerosOf s1 + zs.length) / 16 := by omega
          rw [if_neg hnz] at hg ⊢
          simp only [List.nil_append] at hg ⊢
          generalize hk : 16 * ((zerosOf s1 + zs.length) / 16) - zerosOf s1 = k
          have hkm : k ≤ zs.length := by omega
          obtain ⟨htz, hdz⟩ := take_drop_zeros zs hzs k
          have hs1' : ∀ x ∈ zs.drop k ++ [c], x.1 ≠ 1 := by
            intro x hx; simp at hx
            rcases hx with hx | rfl
            · rw [hdz x hx]; omega
            · omega
          have hzq : zerosOf (zs.drop k ++ [c]) + ([] : List C).length = (zerosOf s1 + zs.length) % 16 := by
            rw [zerosOf_append, zerosOf_all_zero _ hdz, zerosOf_single_ne c h0, List.length_drop, List.length_nil]; omega
          have hcq : corrOf (zs.drop k ++ [c]) = [c.1 % 2] := by
            rw [corrOf_append, corrOf_all_zero _ hdz]; simp [corrOf, h0]
          have hih := ih (zs.drop k ++ [c]) [] hs1' (by simp) (by omega) hone' (by rw [hzq, hcq]; exact hg.append_right)
          rw [hzq, hcq] at hih
          have hstep := step_zrl code dec p hp (hg _ (List.mem_append_left _ (zrlEv_mem _ _ hn))) s1 zs (c :: t) h1 hzs hz1 hn
          rw [hk] at hstep
          have := RefOK.prefix hstep (by have := zerosOf_le_length s1; simp [List.length_take]; omega) (by simpa using hih)
          rw [split_zs s1 zs (c :: t) k]
          exact this
      · -- a newly-nonzero coefficient
        have hc1 : c.1 = 1 := by omega
        rw [refCoefEv_new _ _ c t hc1] at hg ⊢
        by_cases hnz : (zerosOf s1 + zs.length) / 16 = 0
        · rw [hnz, zrlEv_zero] at hg ⊢
          simp only [if_true, List.nil_append] at hg ⊢
          have hr : (zerosOf s1 + zs.length) % 16 = zerosOf s1 + zs.length := by omega
          have hs' : ∀ x ∈ s1 ++ zs, x.1 ≠ 1 := by
            intro x hx; simp at hx
            rcases hx with hx | hx
            · exact h1 x hx
            · rw [hzs x hx]; omega
          have hzq : zerosOf (s1 ++ zs) = (zerosOf s1 + zs.length) % 16 := by rw [zerosOf_append, hzz, hr]
          have hcq : corrOf (s1 ++ zs) = corrOf s1 := by rw [corrOf_append, hcz]; simp
          have hstep := step_new code dec p hp (s1 ++ zs) c t hs' (by omega) hc1 (by rw [hzq]; exact hg _ (by simp))
          rw [hzq, hcq] at hstep
          have := RefOK.prefix hstep (by simp; omega) (tail (fun s hs => hg s (by simp [hs])))
          rw [show s1 ++ zs ++ c :: t = s1 ++ zs ++ [c] ++ t by simp]
          exact this
        · have hn : 1 ≤ (zerosOf s1 + zs.length) / 16 := by omega
          rw [if_neg hnz] at hg ⊢
          generalize hk : 16 * ((zerosOf s1 + zs.length) / 16) - zerosOf s1 = k
          have hkm : k ≤ zs.length := by omega
          obtain ⟨htz, hdz⟩ := take_drop_zeros zs hzs k
          have hzq : zerosOf (zs.drop k) = (zerosOf s1 + zs.length) % 16 := by
            rw [zerosOf_all_zero _ hdz]; simp; omega
          have hcq : corrOf (zs.drop k) = [] := corrOf_all_zero _ hdz
          have hstep2 := step_new code dec p hp (zs.drop k) c t (ne_one_of_zero _ hdz) (by omega) hc1
            (by rw [hzq]; exact hg _ (by simp))
          rw [hzq, hcq] at hstep2
          have h2 := RefOK.prefix hstep2 (by simp) (tail (fun s hs => hg s (by simp [hs])))
          have hstep := step_zrl code dec p hp (hg _ (List.mem_append_left _ (zrlEv_mem _ _ hn))) s1 zs (c :: t) h1 hzs hz1 hn
          rw [hk] at hstep
          have := RefOK.prefix hstep (by have := zerosOf_le_length s1; simp [List.length_take]; omega) (by simpa using h2)
          rw [split_zs s1 zs (c :: t) k]
          simpa using this

/-! ### sequences of blocks: EOBRUN and the buffered correction bits -/

/-- a whole band from its start -/
theorem ref_band (code : Nat → List Bool) (dec : Dec) (p : Int) (hp : 0 < p) (b : List C)
    (hg : GoodEvs code dec (refCoefEv 0 [] b).1) : RefOK code dec p b (refCoefEv 0 [] b).1 (refCoefEv 0 [] b).2 := by
  by_cases ht : hasOne b = true
  · have := ref_coefs code dec p hp b [] [] (by simp) (by simp) (by simp [zerosOf]) ht (by simpa [zerosOf, corrOf] using hg)
    simpa [zerosOf, corrOf] using this
  · have ht' : hasOne b = false := by simpa using ht
    rw [refCoefEv_quiet b 0 [] ht']
    simpa using RefOK.quiet code dec p b (hasOne_false_ne b ht')

theorem refCoefEv_ne_nil : ∀ (cs : List C) (r : Nat) (br : List Nat), hasOne cs = true → (refCoefEv r br cs).1 ≠ [] := by
  intro cs
  induction cs with
  | nil => intro r br h; simp [hasOne] at h
  | cons c t ih =>
    intro r br h
    by_cases h0 : c.1 = 0
    · have h' : hasOne t = true := by rw [hasOne_cons] at h; simpa [h0] using h
      simp only [refCoefEv, h0, if_true]
      exact ih (r + 1) br h'
    · by_cases ha : 2 ≤ c.1
      · have h' : hasOne t = true := by rw [hasOne_cons] at h; simpa [show ¬ c.1 = 1 by omega] using h
        rw [refCoefEv_hist r br c t ha h']
        intro hn
        exact ih _ _ h' (List.append_eq_nil_iff.1 hn).2
      · rw [refCoefEv_new r br c t (by omega)]
        simp

theorem pend_nonempty (b : List C) (hne : b ≠ []) (h : ∀ c ∈ b, c.1 ≠ 1) : zerosOf b > 0 ∨ corrOf b ≠ [] := by
  cases b with
  | nil => exact absurd rfl hne
  | cons c t =>
    by_cases h0 : c.1 = 0
    · left; simp [zerosOf, h0]
    · right; simp [corrOf, h0]

theorem pend_empty (b : List C) (h : ¬ (zerosOf b > 0 ∨ corrOf b ≠ [])) (h1 : ∀ c ∈ b, c.1 ≠ 1) : b = [] := by
  by_cases hb : b = []
  · exact hb
  · exact absurd (pend_nonempty b hb h1) h

theorem refDecBlocks_cons (dec : Dec) (p : Int) (prev : List Int) (ps : List (List Int)) (e : Nat) (bits : List Bool) :
    refDecBlocks dec p (prev :: ps) e bits =
      match refDecBlock dec p prev e bits with
      | .error m => .error m
      | .ok (b, e', bits') =>
        match refDecBlocks dec p ps e' bits' with
        | .error m => .error m
        | .ok (bs, e'', bits'') => .ok (b :: bs, e'', bits'') := rfl

def prevs (p : Int) (b : List C) : List Int := b.map (prevOf p)
def news (p : Int) (b : List C) : List Int := b.map (newOf p)

/-- a pending run covers whole blocks: each takes its correction bits and nothing else -/
theorem refDecBlocks_run (dec : Dec) (p : Int) (hp : 0 < p) : ∀ (fulls : List (List C)) (ps : List (List Int)) (e : Nat)
    (Y : List Bool) (bs : List (List Int)) (e' : Nat) (b' : List Bool),
    (∀ b ∈ fulls, ∀ c ∈ b, c.1 ≠ 1) → fulls.length ≤ e →
    refDecBlocks dec p ps (e - fulls.length) Y = .ok (bs, e', b') →
    refDecBlocks dec p (fulls.map (prevs p) ++ ps) e (corrBits fulls.flatten ++ Y) = .ok (fulls.map (news p) ++ bs, e', b') := by
  intro fulls
  induction fulls with
  | nil => intro ps e Y bs e' b' _ _ h; simpa [corrBits, corrOf] using h
  | cons b t ih =>
    intro ps e Y bs e' b' h1 he h
    have hb : ∀ c ∈ b, c.1 ≠ 1 := h1 b (by simp)
    have ht : ∀ x ∈ t, ∀ c ∈ x, c.1 ≠ 1 := fun x hx => h1 x (by simp [hx])
    simp only [List.length_cons] at he h
    rw [List.map_cons, List.cons_append, refDecBlocks_cons]
    unfold refDecBlock
    rw [if_pos (by omega), List.flatten_cons, corrBits_append, List.append_assoc]
    have hpb : prevs p b = b.map (prevOf p) := rfl
    rw [hpb, refTail_seg p hp b _ hb]
    simp only
    rw [ih ps (e - 1) Y bs e' b' ht (by omega) (by rw [show e - 1 - t.length = e - (t.length + 1) by omega]; exact h)]
    simp [news]

/-- (A) from a block boundary with nothing pending; (B) from inside a band whose remaining
coefficients `seg0` are pending together with the whole blocks `fulls` -/
def RefSeqOK (code : Nat → List Bool) (dec : Dec) (p : Int) (t : List (List C)) : Prop :=
  (∀ rest, GoodEvs code dec (refEv 0 [] t) →
    refDecBlocks dec p (t.map (prevs p)) 0 (evBits code (refEv 0 [] t) ++ rest) = .ok (t.map (news p), 0, rest)) ∧
  (∀ (seg0 : List C) (fulls : List (List C)) (rest : List Bool) (f : Nat), seg0 ≠ [] → (∀ c ∈ seg0, c.1 ≠ 1) →
    (∀ b ∈ fulls, ∀ c ∈ b, c.1 ≠ 1) → 1 + fulls.length < 0x7FFF → seg0.length < f →
    GoodEvs code dec (refEv (1 + fulls.length) (corrOf (seg0 ++ fulls.flatten)) t) →
    ∃ e' bits', refDec dec p f (seg0.map (prevOf p))
        (evBits code (refEv (1 + fulls.length) (corrOf (seg0 ++ fulls.flatten)) t) ++ rest) = .ok (seg0.map (newOf p), e', bits') ∧
      refDecBlocks dec p ((fulls ++ t).map (prevs p)) e' bits' = .ok ((fulls ++ t).map (news p), 0, rest))

theorem evBits_corr (code : Nat → List Bool) (seg : List C) : evBits code (brEv (corrOf seg)) = corrBits seg := by
  rw [evBits_brEv']; rfl

/-- the continuation the encoder writes after the symbols of a band with a newly-nonzero coefficient -/
def refCont (st : Nat × List Nat) (t : List (List C)) : List Ev :=
  if st.1 > 0 ∨ st.2 ≠ [] then
    (if st.2.length > maxBE then eobEv 1 ++ (brEv st.2 ++ refEv 0 [] t) else refEv 1 st.2 t)
  else refEv 0 [] t

/-- a band with a newly-nonzero coefficient, decoded from a block boundary -/
theorem ref_step (code : Nat → List Bool) (dec : Dec) (p : Int) (hp : 0 < p) (t : List (List C))
    (ht : RefSeqOK code dec p t) (b : List C) (rest : List Bool)
    (hg : GoodEvs code dec ((refCoefEv 0 [] b).1 ++ refCont (refCoefEv 0 [] b).2 t)) :
    refDecBlocks dec p ((b :: t).map (prevs p)) 0
      (evBits code ((refCoefEv 0 [] b).1 ++ refCont (refCoefEv 0 [] b).2 t) ++ rest) = .ok ((b :: t).map (news p), 0, rest) := by
  obtain ⟨done, pend, hw, hp1, hst, hdec⟩ := ref_band code dec p hp b hg.append_left
  rw [List.map_cons, refDecBlocks_cons]
  unfold refDecBlock
  rw [if_neg (by omega), evBits_append, List.append_assoc]
  have hlen : (prevs p b).length = b.length := by simp [prevs]
  have hpb : prevs p b = b.map (prevOf p) := rfl
  have hnb : news p b = b.map (newOf p) := rfl
  rw [hlen, hpb]
  have hg2 := hg.append_right
  rw [hst] at hg2 ⊢
  unfold refCont at hg2 ⊢
  simp only at hg2 ⊢
  by_cases hpe : zerosOf pend > 0 ∨ corrOf pend ≠ []
  · rw [if_pos hpe] at hg2 ⊢
    have hpne : pend ≠ [] := by
      intro h; subst h; simp [zerosOf, corrOf] at hpe
    by_cases hfl : (corrOf pend).length > maxBE
    · rw [if_pos hfl] at hg2 ⊢
      have h1 := ref_eob code dec p hp pend 1 (evBits code (refEv 0 [] t) ++ rest) b.length hp1 hpne (by omega) (by omega) hg2.append_left
      have hc := hdec (b.length + 1) (evBits code (eobEv 1 ++ (brEv (corrOf pend) ++ refEv 0 [] t)) ++ rest)
        (pend.map (newOf p)) 0 (evBits code (refEv 0 [] t) ++ rest) (by omega)
        (by rw [evBits_append, evBits_append, evBits_corr, List.append_assoc, List.append_assoc]; exact h1)
      rw [hc]
      simp only
      rw [ht.1 rest hg2.append_right.append_right]
      simp only [List.map_cons, hnb]
      rw [hw, List.map_append]
    · rw [if_neg hfl] at hg2 ⊢
      obtain ⟨e', bits', hd, hrest⟩ := ht.2 pend [] rest (b.length + 1) hpne hp1 (by simp) (by simp)
        (by rw [hw]; simp; omega) (by simpa using hg2)
      simp only [List.length_nil, Nat.add_zero, List.flatten_nil, List.append_nil, List.nil_append] at hd hrest
      have hc := hdec (b.length + 1) _ _ _ _ (by omega) hd
      rw [hc]
      simp only
      rw [hrest]
      simp only [List.map_cons, hnb]
      rw [hw, List.map_append]
  · rw [if_neg hpe] at hg2 ⊢
    have hpn : pend = [] := pend_empty pend hpe hp1
    subst hpn
    have hc := hdec (b.length + 1) (evBits code (refEv 0 [] t) ++ rest) [] 0 _ (by omega) (refDec_nil dec p _ _)
    rw [hc]
    simp only
    rw [ht.1 rest hg2]
    simp only [List.map_cons, hnb]
    rw [hw]; simp

theorem refEv_cons_quiet (e : Nat) (be : List Nat) (b : List C) (t : List (List C)) (hq : hasOne b = false) (hne : b ≠ []) :
    refEv e be (b :: t) =
      if e + 1 = 0x7FFF ∨ (be ++ corrOf b).length > maxBE then eobEv (e + 1) ++ (brEv (be ++ corrOf b) ++ refEv 0 [] t)
      else refEv (e + 1) (be ++ corrOf b) t := by
  have hp := pend_nonempty b hne (hasOne_false_ne b hq)
  conv_lhs => unfold refEv
  simp only [refCoefEv_quiet b 0 [] hq, List.isEmpty_nil, if_true, Nat.zero_add, List.nil_append]
  rw [if_pos hp]

theorem refEv_cons_loud (e : Nat) (be : List Nat) (b : List C) (t : List (List C)) (h : hasOne b = true) :
    refEv e be (b :: t) = eobEv e ++ (brEv be ++ ((refCoefEv 0 [] b).1 ++ refCont (refCoefEv 0 [] b).2 t)) := by
  have hne := refCoefEv_ne_nil b 0 [] h
  have hemp : (refCoefEv 0 [] b).1.isEmpty = false := by
    cases hc : (refCoefEv 0 [] b).1 with
    | nil => exact absurd hc hne
    | cons _ _ => rfl
  conv_lhs => unfold refEv
  unfold refCont
  simp only [hemp, Bool.false_eq_true, if_false]

theorem ref_blocks (code : Nat → List Bool) (dec : Dec) (p : Int) (hp : 0 < p) (L : Nat) (hL : 1 ≤ L) :
    ∀ t : List (List C), (∀ b ∈ t, b.length = L) → RefSeqOK code dec p t := by
  intro t
  induction t with
  | nil =>
    intro _
    refine ⟨?_, ?_⟩
    · intro rest _; simp [refEv, eobEv_zero, brEv, evBits, refDecBlocks]
    · intro seg0 fulls rest f hne h1 hfull he hf hg
      obtain ⟨g, rfl⟩ : ∃ g, f = g + 1 := ⟨f - 1, by omega⟩
      simp only [refEv] at hg ⊢
      refine ⟨fulls.length, corrBits fulls.flatten ++ rest, ?_, ?_⟩
      · rw [evBits_append, evBits_corr, corrBits_append, List.append_assoc, List.append_assoc]
        have := ref_eob code dec p hp seg0 (1 + fulls.length) (corrBits fulls.flatten ++ rest) g h1 hne (by omega) (by omega) hg.append_left
        rw [this, Nat.add_sub_cancel_left]
      · have := refDecBlocks_run dec p hp fulls [] fulls.length rest [] 0 rest hfull (Nat.le_refl _) (by simp [refDecBlocks])
        simpa using this
  | cons b t ih =>
    intro hwf
    have hbl : b.length = L := hwf b (by simp)
    have hbne : b ≠ [] := by intro h; rw [h] at hbl; simp at hbl; omega
    have iht := ih (fun x hx => hwf x (by simp [hx]))
    refine ⟨?_, ?_⟩
    · -- (A)
      intro rest hg
      by_cases hone : hasOne b = true
      · rw [refEv_cons_loud 0 [] b t hone] at hg ⊢
        simp only [eobEv_zero, brEv, List.map_nil, List.nil_append] at hg ⊢
        exact ref_step code dec p hp t iht b rest hg
      · have hq : hasOne b = false := by simpa using hone
        have hb1 := hasOne_false_ne b hq
        rw [refEv_cons_quiet 0 [] b t hq hbne] at hg ⊢
        simp only [List.nil_append, Nat.zero_add] at hg ⊢
        rw [List.map_cons, refDecBlocks_cons]
        unfold refDecBlock
        rw [if_neg (by omega)]
        have hpb : prevs p b = b.map (prevOf p) := rfl
        have hnb : news p b = b.map (newOf p) := rfl
        have hlen : (prevs p b).length = b.length := by simp [prevs]
        rw [hlen, hpb]
        by_cases hfl : (1 : Nat) = 0x7FFF ∨ (corrOf b).length > maxBE
        · rw [if_pos hfl] at hg ⊢
          have h1 := ref_eob code dec p hp b 1 (evBits code (refEv 0 [] t) ++ rest) b.length hb1 hbne (by omega) (by omega) hg.append_left
          rw [evBits_append, evBits_append, evBits_corr, List.append_assoc, List.append_assoc, h1]
          simp only
          rw [iht.1 rest hg.append_right.append_right]
          simp [hnb]
        · rw [if_neg hfl] at hg ⊢
          obtain ⟨e', bits', hd, hrest⟩ := iht.2 b [] rest (b.length + 1) hbne hb1 (by simp) (by simp) (by omega) (by simpa using hg)
          simp only [List.length_nil, Nat.add_zero, List.flatten_nil, List.append_nil, List.nil_append] at hd hrest
          rw [hd]
          simp only
          rw [hrest]
          simp [hnb]
    · -- (B)
      intro seg0 fulls rest f hne h1 hfull he hf hg
      obtain ⟨g, rfl⟩ : ∃ g, f = g + 1 := ⟨f - 1, by omega⟩
      by_cases hone : hasOne b = true
      · rw [refEv_cons_loud _ _ b t hone] at hg ⊢
        refine ⟨fulls.length, corrBits fulls.flatten ++ (evBits code ((refCoefEv 0 [] b).1 ++ refCont (refCoefEv 0 [] b).2 t) ++ rest), ?_, ?_⟩
        · rw [evBits_append, evBits_append, evBits_corr, corrBits_append, List.append_assoc, List.append_assoc, List.append_assoc]
          have := ref_eob code dec p hp seg0 (1 + fulls.length)
            (corrBits fulls.flatten ++ (evBits code ((refCoefEv 0 [] b).1 ++ refCont (refCoefEv 0 [] b).2 t) ++ rest)) g h1 hne (by omega) (by omega) hg.append_left
          rw [this, Nat.add_sub_cancel_left]
        · have hs := ref_step code dec p hp t iht b rest hg.append_right.append_right
          have := refDecBlocks_run dec p hp fulls ((b :: t).map (prevs p)) fulls.length _ _ 0 rest hfull (Nat.le_refl _)
            (by rw [Nat.sub_self]; exact hs)
          rw [List.map_append, this, List.map_append]
      · have hq : hasOne b = false := by simpa using hone
        have hb1 := hasOne_false_ne b hq
        rw [refEv_cons_quiet _ _ b t hq hbne] at hg ⊢
        have hcorr : corrOf (seg0 ++ fulls.flatten) ++ corrOf b = corrOf (seg0 ++ (fulls ++ [b]).flatten) := by
          simp [corrOf_append]
        have hfull' : ∀ x ∈ fulls ++ [b], ∀ c ∈ x, c.1 ≠ 1 := by
          intro x hx; simp at hx
          rcases hx with hx | rfl
          · exact hfull x hx
          · exact hb1
        by_cases hfl : 1 + fulls.length + 1 = 0x7FFF ∨ (corrOf (seg0 ++ fulls.flatten) ++ corrOf b).length > maxBE
        · rw [if_pos hfl] at hg ⊢
          refine ⟨fulls.length + 1, corrBits (fulls ++ [b]).flatten ++ (evBits code (refEv 0 [] t) ++ rest), ?_, ?_⟩
          · rw [hcorr, evBits_append, evBits_append, evBits_corr, corrBits_append, List.append_assoc, List.append_assoc, List.append_assoc]
            have := ref_eob code dec p hp seg0 (1 + fulls.length + 1)
              (corrBits (fulls ++ [b]).flatten ++ (evBits code (refEv 0 [] t) ++ rest)) g h1 hne (by omega) (by omega) hg.append_left
            have e1 : 1 + fulls.length + 1 - 1 = fulls.length + 1 := by omega
            rw [this, e1]
          · have := refDecBlocks_run dec p hp (fulls ++ [b]) (t.map (prevs p)) (fulls.length + 1) _ _ 0 rest hfull'
              (by simp) (by simp only [List.length_append, List.length_singleton, Nat.sub_self]; exact iht.1 rest hg.append_right.append_right)
            rw [show fulls ++ b :: t = (fulls ++ [b]) ++ t by simp, List.map_append, this]
            simp
        · rw [if_neg hfl] at hg ⊢
          rw [hcorr] at hg ⊢
          have hlen' : 1 + fulls.length + 1 = 1 + (fulls ++ [b]).length := by simp; omega
          rw [hlen'] at hg ⊢
          obtain ⟨e', bits', hd, hrest⟩ := iht.2 seg0 (fulls ++ [b]) rest (g + 1) hne h1 hfull' (by simp at hfl ⊢; omega) hf hg
          refine ⟨e', bits', hd, ?_⟩
          rw [show fulls ++ b :: t = (fulls ++ [b]) ++ t by simp]
          exact hrest

end LJT.ProgAC
