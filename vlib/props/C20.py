"""C20 - planar YUV geometry (plane width/height/size, buffer size, unified-buffer
offsets) and composition equalities."""
ID = "C20"
VARIANTS = ["san", "simd"]
IMAX = 2147483647
RULE = ("yuvgeom/jbuf/scaled ops: exhaustive small (w,h) x 7 subsamplings x alignments in thorough, sampled in quick, "
        "plus random up to INT_MAX, overflow boundaries and invalid arguments; yuvcontent ops check the two pixel "
        "equalities and unified=per-plane on the real code; class = op + validity class")
TRUSTED = ["Model.TJSize is a hand transcription of the size helpers in turbojpeg.c with explicit C integer widths"]
ASSUMPTIONS = ["unsigned long is 64 bits (the ULLONG_MAX > ULONG_MAX blocks are compiled out)"]


def classify(op, R):
    p = op.split(" ")
    if p[0] == "yuvgeom":
        w, h, al, ss = int(p[1]), int(p[2]), int(p[3]), int(p[4])
        k = "valid" if (w >= 1 and h >= 1 and 0 <= ss < 7 and al >= 1 and al & (al - 1) == 0) else "invalid"
        big = "big" if max(w, h) > 1 << 20 else "small"
        return "yuvgeom:%s:%s" % (k, big)
    if p[0] == "yuvcomp":
        return "yuvcomp:ss%s:w%d:h%d" % (p[3], int(p[1]) % 4, int(p[2]) % 2)
    if p[0] == "yuvcontent":
        return "yuvcontent:ss%s:sf%s:stride%s" % (p[3], p[4], p[6])
    return p[0]


def gen_ops(rng, tier):
    ops = []
    big = tier == "thorough"
    aligns = [1, 2, 4, 8, 16, 32, 64]
    lim = 70 if big else 20
    for ss in range(7):
        for w in range(1, lim + 1):
            for h in (range(1, lim + 1) if big else rng.sample(range(1, 71), 4)):
                al = aligns[(w + h + ss) % 7] if big else rng.choice(aligns)
                ops.append("yuvgeom %d %d %d %d %d" % (w, h, al, ss, rng.choice([0, 0, w + 40, -(w + 40)])))
    edge = [1, 2, 7, 8, 9, 15, 16, 17, 31, 32, 33, 65500, 65535, 65536, 46340, 46341, 50000,
            IMAX - 40, IMAX - 31, IMAX - 16, IMAX - 8, IMAX - 7, IMAX - 3, IMAX - 1, IMAX]
    bad = [0, -1, -IMAX - 1]
    for i in range(4000 if big else 500):
        r = rng.random()
        w = rng.choice(edge) if r < .4 else (rng.randint(1, IMAX) if r < .8 else rng.choice(bad + [rng.randint(1, 5000)]))
        h = rng.choice(edge) if rng.random() < .4 else (rng.randint(1, IMAX) if rng.random() < .7 else rng.choice(bad + [rng.randint(1, 5000)]))
        al = rng.choice(aligns + [1 << rng.randint(7, 30), 0, -4, 3, 6, 1 << 30, IMAX])
        ss = rng.choice([0, 1, 2, 3, 4, 5, 6, 0, 2, -1, 7, 100])
        st = rng.choice([0, 0, 1, rng.randint(1, IMAX), -rng.randint(1, IMAX), IMAX, -IMAX - 1, -IMAX])
        ops.append("yuvgeom %d %d %d %d %d" % (w, h, al, ss, st))
        if i % 2 == 0:
            ops.append("jbuf %d %d %d" % (w, h, ss))
    # pixel equalities on the real library (model: skip)
    for i in range(1200 if big else 220):
        w = rng.choice([1, 2, 7, 8, 9, 15, 16, 17, 23, 31, 32, 33, 40, 47, 48, 64, 65])
        h = rng.choice([1, 2, 7, 8, 9, 15, 16, 17, 23, 31, 32, 33, 40, 47, 48, 64, 65])
        # 100 / 101: 4:2:2 / 4:4:0 written with doubled sampling factors (libjpeg API)
        ss = rng.choice([0, 1, 2, 3, 4, 5, 6, 0, 1, 2, 4, 100, 101])
        sfi = rng.randrange(16) if rng.random() < .75 else 8
        pf = rng.choice([0, 1, 2, 3, 4, 5, 7, 8, 9, 10, 6])
        ops.append("yuvcontent %d %d %d %d %d %d %d %d" % (w, h, ss, sfi, pf, rng.randrange(5), rng.choice([1, 2, 4, 8, 16, 32]), rng.randrange(1 << 30)))
        # compression from planar YUV: every description of the same planes gives the same JPEG
        if rng.random() < .5:
            ops.append("yuvcomp %d %d %d %d" % (rng.choice([w, rng.randint(1, 40), 35, 33, 17]), rng.choice([h, rng.randint(1, 30), 19, 7]), rng.randrange(6), rng.randrange(1 << 30)))
    for d in [1, 2, 3, 7, 8, 9, 15, 16, 17, 100, 227, 65500, 1 << 20] + [rng.randint(1, 1 << 24) for _ in range(60 if big else 15)]:
        ops.append("scaled %d" % d)
    return ops


def search(ctx, failing_ops):
    from .. import common as C
    import random
    rng = random.Random("search/%s" % ctx["seed"])
    ops = list(failing_ops) + gen_ops(rng, "quick")
    found = []
    for v, exe in ctx["exes"].items():
        res, _ = C.run_exec(exe, ops)
        for op, (R, O) in zip(ops, res):
            if O and O.startswith("fail"):
                found.append((v, op, R, O))
    return found


MANIFEST = {
    "text": ("Kernel-checked Lean theorems over a model of the TurboJPEG size helpers with explicit C integer widths: plane "
             "width/height closed forms with exact overflow guard for every int argument, planes cover the image, buffer size = "
             "sum of padded planes, unified-buffer plane offsets are inside the buffer and disjoint, plane-size formula, "
             "tj3JPEGBufSize closed form. The model is tied to tj3YUV*/tjPlane*/tjBufSize* by exact comparison (exhaustive small "
             "sizes, random to INT_MAX, overflow boundaries); the pixel equalities (planes = raw-data decode, decode-planes = "
             "fast-upsampling decompress) are decided by an oracle on the real code only and are labelled partial."),
    "design_ref": "DESIGN.md 6.20",
    "note": ("Trusted: Lean kernel; axioms propext, Quot.sound, Classical.choice; hand model of turbojpeg.c size helpers (tied by "
             "correspondence); the pixel-equality clauses are not proved (oracle on real code)."),
    "technique": "Lean 4 proof (omega/bit-mask lemmas over fixed-width integer model) + model/code correspondence",
}
