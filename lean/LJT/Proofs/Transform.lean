import LJT.Model.Transform
namespace LJT.Xform

theorem getD_map_range {α : Type} (f : Nat → α) (n k : Nat) (d : α) (h : k < n) :
    ((List.range n).map f).getD k d = f k := by
  rw [List.getD_eq_getElem?_getD, List.getElem?_map, List.getElem?_range h]; rfl

theorem map_range_ext {α : Type} (f g : Nat → α) (n : Nat) (h : ∀ k, k < n → f k = g k) :
    (List.range n).map f = (List.range n).map g := by
  apply List.map_congr_left
  intro k hk
  exact h k (List.mem_range.1 hk)

/-- a block is well formed when it has its 64 coefficients -/
def IsBlock (b : Block) : Prop := b.length = 64

theorem eq_map_range (b : Block) (hb : IsBlock b) : b = (List.range 64).map (fun k => b.getD k 0) := by
  apply List.ext_getElem
  · simp; exact hb
  · intro k h1 h2
    simp [List.getD_eq_getElem?_getD, List.getElem?_eq_getElem h1]

theorem trB_isBlock (b : Block) : IsBlock (trB b) := by simp [IsBlock, trB]
theorem negCols_isBlock (b : Block) : IsBlock (negCols b) := by simp [IsBlock, negCols]
theorem negRows_isBlock (b : Block) : IsBlock (negRows b) := by simp [IsBlock, negRows]

theorem trB_trB (b : Block) (hb : IsBlock b) : trB (trB b) = b := by
  conv => rhs; rw [eq_map_range b hb]
  unfold trB
  apply map_range_ext
  intro k hk
  rw [getD_map_range _ 64 _ 0 (by omega)]
  congr 1; omega

theorem negCols_negCols (b : Block) (hb : IsBlock b) : negCols (negCols b) = b := by
  conv => rhs; rw [eq_map_range b hb]
  unfold negCols
  apply map_range_ext
  intro k hk
  rw [getD_map_range _ 64 _ 0 hk]
  split <;> simp

theorem negRows_negRows (b : Block) (hb : IsBlock b) : negRows (negRows b) = b := by
  conv => rhs; rw [eq_map_range b hb]
  unfold negRows
  apply map_range_ext
  intro k hk
  rw [getD_map_range _ 64 _ 0 hk]
  split <;> simp

/-- transposing turns a column sign pattern into a row sign pattern -/
theorem trB_negCols (b : Block) : trB (negCols b) = negRows (trB b) := by
  unfold trB negCols negRows
  apply map_range_ext
  intro k hk
  rw [getD_map_range _ 64 _ 0 (by omega), getD_map_range _ 64 _ 0 hk]
  have h1 : ((k % 8) * 8 + k / 8) % 8 = k / 8 := by omega
  rw [h1]

theorem trB_negRows (b : Block) : trB (negRows b) = negCols (trB b) := by
  unfold trB negCols negRows
  apply map_range_ext
  intro k hk
  rw [getD_map_range _ 64 _ 0 (by omega), getD_map_range _ 64 _ 0 hk]
  have h1 : ((k % 8) * 8 + k / 8) / 8 = k % 8 := by omega
  rw [h1]

theorem negCols_negRows (b : Block) : negCols (negRows b) = negRows (negCols b) := by
  unfold negCols negRows
  apply map_range_ext
  intro k hk
  rw [getD_map_range _ 64 _ 0 hk, getD_map_range _ 64 _ 0 hk]
  split <;> split <;> simp

end LJT.Xform

namespace LJT.Xform

/-- an operation applied to a grid made of whole iMCUs, without crop or trim -/
def applyFull (op : Op) (g : Grid) : Grid :=
  let dh := if op.swaps then g.wb else g.hb
  let dw := if op.swaps then g.hb else g.wb
  ⟨dh, dw, moveBlock op g.at_ dw dh 0 0⟩

theorem sub_sub_self' (n k : Nat) (h : k < n) : n - 1 - (n - 1 - k) = k := by omega

theorem inverse_restores (op : Op) (g : Grid) (hblk : ∀ y x, IsBlock (g.at_ y x)) (y x : Nat)
    (hy : y < g.hb) (hx : x < g.wb) :
    (applyFull op.inverse (applyFull op g)).at_ y x = g.at_ y x := by
  have e1 := sub_sub_self' g.wb x hx
  have e2 := sub_sub_self' g.hb y hy
  have hx' : g.wb - 1 - x < g.wb := by omega
  have hy' : g.hb - 1 - y < g.hb := by omega
  cases op <;>
    simp only [applyFull, moveBlock, Op.inverse, Op.swaps, Op.mirX, Op.mirY, blockOp, Nat.add_zero,
      Bool.true_and, Bool.false_and, hx, hy, hx', hy', decide_true, decide_false, if_true, if_false,
      Bool.false_eq_true, e1, e2]
  · exact negCols_negCols _ (hblk _ _)
  · exact negRows_negRows _ (hblk _ _)
  · exact trB_trB _ (hblk _ _)
  · -- transverse
    rw [trB_negRows, trB_negCols, trB_trB _ (hblk _ _), negCols_negCols _ (negRows_isBlock _),
      negRows_negRows _ (hblk _ _)]
  · -- rot90 then rot270
    rw [trB_negCols, trB_trB _ (hblk _ _), negRows_negRows _ (hblk _ _)]
  · -- rot180
    rw [negCols_negRows, negRows_negRows _ (negCols_isBlock _), negCols_negCols _ (hblk _ _)]
  · -- rot270 then rot90
    rw [trB_negRows, trB_trB _ (hblk _ _), negCols_negCols _ (hblk _ _)]

end LJT.Xform
