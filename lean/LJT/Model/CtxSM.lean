import LJT.Model.SkipSM
/-!
The read / skip state machine when the upsampler needs context rows (fancy upsampling of vertically subsampled chroma -
the default for 4:2:0): src/jdmainct.c `process_data_context_main` (three-state machine, the last row group of every
iMCU row is postponed until the next iMCU row has been decoded), src/jdsample.c `sep_upsample`, and the context branch
of `_jpeg_skip_scanlines` in src/jdapistd.c.  Counters as in the C structures (compared with them after every call by
`skipst`); ghost fields say which iMCU row the current and the postponed buffer hold.  The model covers the *centre* row
group each delivered row is computed from, not the neighbouring row groups the fancy upsampler reads as context (the
"funny pointer" lists of jdmainct.c): those are covered only by the pixel oracle.
-/
namespace LJT.Skip

structure CSt where
  y : Nat         -- output_scanline
  irow : Nat      -- output_iMCU_row
  bf : Bool       -- main->buffer_full
  rg : Nat        -- main->rowgroup_ctr
  avail : Nat     -- main->rowgroups_avail
  cs : Nat        -- main->context_state: 0 CTX_PREPARE_FOR_IMCU, 1 CTX_PROCESS_IMCU, 2 CTX_POSTPONED_ROW
  which : Nat     -- main->whichptr
  ictr : Nat      -- main->iMCU_row_ctr
  nro : Nat       -- upsample->next_row_out
  rtg : Nat       -- upsample->rows_to_go
  curRow : Nat    -- ghost: iMCU row last decoded (in xbuffer[whichptr] while buffer_full)
  postRow : Nat   -- ghost: iMCU row whose last row group is postponed
  cbRow : Nat     -- ghost: provenance of the conversion buffer
  cbRg : Nat
deriving Repr, DecidableEq

def cinit (c : Cfg) : CSt := ⟨0, 0, false, 0, 0, 0, 0, 0, c.v, c.H, 0, 0, 0, 0⟩

/-- `total_iMCU_rows` -/
def Cfg.T (c : Cfg) : Nat := (c.H + c.M * c.v - 1) / (c.M * c.v)

/-- `set_bottom_pointers`: the number of real row groups of the last iMCU row -/
def Cfg.bottomAvail (c : Cfg) : Nat :=
  let rl := c.H % (c.M * c.v)
  ((if rl = 0 then c.M * c.v else rl) - 1) / c.v + 1

/-- `sep_upsample` called from the context main controller with room for `room` more rows -/
def cups (c : Cfg) (s : CSt) (room : Nat) : CSt × List Prov :=
  let s := if c.v ≤ s.nro then
      (if s.cs = 2 then { s with cbRow := s.postRow, cbRg := c.M - 1, nro := 0 }
       else { s with cbRow := s.curRow, cbRg := s.rg, nro := 0 })
    else s
  let k := min (min (c.v - s.nro) s.rtg) room
  let rows := (List.range k).map fun j => (s.cbRow, s.cbRg, s.nro + j)
  let s := { s with rtg := s.rtg - k, nro := s.nro + k }
  let s := if c.v ≤ s.nro then { s with rg := s.rg + 1 } else s
  (s, rows)

/-- CTX_PREPARE_FOR_IMCU -/
def cprep (c : Cfg) (s : CSt) : CSt :=
  { s with rg := 0, avail := if s.ictr = c.T then c.bottomAvail else c.M - 1, cs := 1 }

/-- CTX_PROCESS_IMCU with room for `room` rows: one call of the upsampler; when the last of the `avail` row groups is
done, switch to the other pointer list and postpone the last row group of this iMCU row -/
def cproc (c : Cfg) (s : CSt) (room : Nat) : CSt × List Prov :=
  let r := cups c s room
  if r.1.rg < r.1.avail then r
  else ({ r.1 with which := 1 - r.1.which, bf := false, rg := c.M + 1, avail := c.M + 2, cs := 2, postRow := r.1.curRow }, r.2)

/-- `(*cinfo->coef->decompress_data)` into `xbuffer[whichptr]` when the main buffer is empty -/
def cfill (s : CSt) : CSt :=
  if s.bf then s else { s with bf := true, curRow := s.irow, irow := s.irow + 1, ictr := s.ictr + 1 }

/-- `process_data_context_main` with room for `n` rows -/
def cprocess (c : Cfg) (s : CSt) (n : Nat) : CSt × List Prov :=
  let s := cfill s
  if s.cs = 2 then
    -- CTX_POSTPONED_ROW
    let r1 := cups c s n
    if r1.1.rg < r1.1.avail then r1
    else
      let s := { r1.1 with cs := 0 }
      if n ≤ r1.2.length then (s, r1.2)
      else
        let r := cproc c (cprep c s) (n - r1.2.length)
        (r.1, r1.2 ++ r.2)
  else if s.cs = 0 then cproc c (cprep c s) n
  else cproc c s n

def cread (c : Cfg) (s : CSt) (n : Nat) : CSt × List Prov :=
  if c.H ≤ s.y then (s, [])
  else if n = 0 then (s, [])
  else
    let r := cprocess c s n
    ({ r.1 with y := r.1.y + r.2.length }, r.2)

def creadDiscard (c : Cfg) : Nat → CSt → CSt
  | 0, s => s
  | k + 1, s => creadDiscard c k (cread c s 1).1

/-- `_jpeg_skip_scanlines`, context-row branch -/
def cskip (c : Cfg) (s : CSt) (n : Nat) : CSt × Nat :=
  if c.H ≤ s.y + n then ({ s with y := c.H }, c.H - s.y)
  else if n = 0 then (s, 0)
  else
    let L := c.M * c.v
    let left := (L - s.y % L) % L
    if n < left + 1 ∨ (left < c.v ∧ s.bf = true ∧ n - left < L + 1) then (creadDiscard c n s, n)
    else
      let after := n - left
      let next := decide (left < c.v) && s.bf          -- the next iMCU row has been decoded already
      let after := if next then after - L else after
      let s := { s with y := if next then s.y + left + L else s.y + left }
      let s := { s with bf := false, rg := 0, cs := 0, nro := c.v, rtg := c.H - s.y }
      let toSkip := (after - 1) / L * L
      let toRead := after - toSkip
      let s := { s with y := s.y + toSkip, irow := s.irow + toSkip / L, ictr := s.ictr + toSkip / L }
      let s := creadDiscard c toRead s
      ({ s with rtg := c.H - s.y }, n)

def cstep (c : Cfg) (s : CSt) : Call → CSt × List (Nat × Prov) × Nat
  | .rd n => let r := cread c s n; (r.1, (r.2.zipIdx s.y).map (fun (p, i) => (i, p)), r.2.length)
  | .sk n => let r := cskip c s n; (r.1, [], r.2)

def crun (c : Cfg) : CSt → List Call → CSt × List (Nat × Prov)
  | s, [] => (s, [])
  | s, a :: as =>
    let r := cstep c s a
    let r2 := crun c r.1 as
    (r2.1, r.2.1 ++ r2.2)

end LJT.Skip
