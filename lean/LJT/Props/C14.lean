import LJT.Proofs.Mem
/-! # C14 - allocation failures are survived, nothing leaks, configured limits hold

The memory manager's bookkeeping as theorems (Model/Mem.lean).  That the real library follows
this bookkeeping is tied by replaying its recorded allocation trace through the model
(`memreplay`); survival of failed allocations, leak-freedom and the limits themselves are
checked on the real code with fault injection at every allocation index (harness `afail`,
`limit`). -/
namespace LJT.Props.C14
open LJT.Mem

/-- **The usage counter is exact after every operation**: whatever sequence of allocations
(successful or failed), pool releases and single releases has happened, the counter that
enforces `max_memory_to_use` equals the bytes really outstanding -/
theorem counter_exact_alloc (s : State) (id pool size : Nat) (ok : Bool) (h : Inv s) : Inv (alloc s id pool size ok) :=
  alloc_inv s id pool size ok h
theorem counter_exact_free_pool (s : State) (pool : Nat) (h : Inv s) : Inv (freePool s pool) := freePool_inv s pool h
theorem counter_exact_free_block (s : State) (id : Nat) (b : Blk) (h : Inv s)
    (hu : s.live.filter (fun x => decide (x.id = id)) = [b]) : Inv (free1 s id) := free1_inv s id b h hu
theorem counter_exact_init : Mem.Inv init := by simp [Mem.Inv, init, sumSizes]

/-- **A failed allocation changes nothing** (nothing to leak, nothing half-registered) -/
theorem failed_allocation_is_noop (s : State) (id pool size : Nat) : alloc s id pool size false = s := by
  simp [alloc]

/-- **After destruction nothing is outstanding**, whatever happened before -/
theorem destroy_leaves_nothing (s : State) (hp : ∀ b ∈ s.live, b.pool = 0 ∨ b.pool = 1) : (destroy s).live = [] :=
  destroy_empty s hp

/-- **Releasing the image pool forgets the image**: what remains counted is exactly the
permanent pool, independent of how much was allocated for images before (this is what makes
the memory limit behave the same for the n-th image as for the first) -/
theorem after_image_release_only_permanent (s : State) (h : Inv s) :
    (freePool s 1).total = sumSizes (s.live.filter (fun b => decide (b.pool ≠ 1))) := by
  have := freePool_inv s 1 h
  unfold Mem.Inv at this
  rw [this]; rfl

/-- **The limit is honoured by construction of the grant**: with a limit, never more than
`limit - already` is granted to virtual arrays -/
theorem grant_within_limit (limit already maxNeeded : Nat) (hl : 0 < limit) :
    available limit already maxNeeded + already ≤ max limit already := by
  unfold available
  rw [if_neg (by omega)]
  omega

/-- non-vacuity -/
example : (freePool (alloc (alloc init 0 0 168 true) 1 1 16000 true) 1).total = 168 ∧
    sumSizes (freePool (alloc (alloc init 0 0 168 true) 1 1 16000 true) 1).live = 168 := by
  refine ⟨by decide, by decide⟩

end LJT.Props.C14
