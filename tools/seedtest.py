#!/usr/bin/env python3
"""tools/seedtest.py [<prop>/<mut> ...]: apply each seeded patch to /repo, run the
property's quick check, revert.  Prints which were caught.  Never leaves /repo dirty."""
import json, os, subprocess, sys, glob
V = os.path.dirname(os.path.dirname(os.path.abspath(__file__)))
sel = sys.argv[1:]
dirs = sorted(glob.glob(os.path.join(V, "seeded", "*", "*", "patch.diff")))
out = {}
for pf in dirs:
    d = os.path.dirname(pf)
    name = os.path.relpath(d, os.path.join(V, "seeded"))
    if sel and name not in sel and name.split("/")[0] not in sel:
        continue
    meta = json.load(open(os.path.join(d, "meta.json")))
    pid = meta["property"]
    st = subprocess.run(["git", "-C", "/repo", "status", "--porcelain", "--untracked-files=no"], capture_output=True, text=True).stdout
    if st.strip():
        print("repo dirty, abort", st); sys.exit(2)
    r = subprocess.run(["git", "-C", "/repo", "apply", pf], capture_output=True, text=True)
    if r.returncode != 0:
        print(name, "PATCH DOES NOT APPLY", r.stderr[:300]); out[name] = "noapply"; continue
    # the evidence file of the property must keep describing the unchanged tree: save it and put it back
    evp = os.path.join(V, "evidence", pid + ".json")
    evsave = open(evp).read() if os.path.exists(evp) else None
    try:
        tier = os.environ.get("SEED_TIER", "quick")
        c = subprocess.run([os.path.join(V, "check"), pid, "--tier", tier], capture_output=True, text=True, cwd=V)
        viol = [l for l in c.stdout.split("\n") if l.startswith("VIOLATION")]
        out[name] = {"rc": c.returncode, "violations": viol[:3]}
        print(name, pid, "rc=%d" % c.returncode, viol[:2], c.stderr.strip().split("\n")[-1][:200])
    finally:
        subprocess.run(["git", "-C", "/repo", "checkout", "--", "."])
        if evsave is not None:
            open(evp, "w").write(evsave)
# merge into the results of earlier runs (one entry per seeded change)
rp = os.path.join(V, "seeded", "last_results.json")
try:
    allres = json.load(open(rp))
except Exception:
    allres = {}
allres.update(out)
json.dump(allres, open(rp, "w"), indent=1, sort_keys=True)
# the generated Lean files must describe the restored tree again
subprocess.run([sys.executable, os.path.join(V, "tools", "regen.py")], capture_output=True)
