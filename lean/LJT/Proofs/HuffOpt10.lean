import LJT.Proofs.HuffOpt9
import Mathlib.Data.List.Nodup
import Batteries.Data.List.Perm
/-! K.2 generator, part 10: the loop that fills `huffval[]` (a counting sort by `codesize[]` that skips
the last slot) lists every real symbol once, in order of code length. -/
set_option maxRecDepth 20000
namespace LJT.Huff

/-- number of slots before `t` whose code length is `c` -/
def cnt (cs : List Nat) (t c : Nat) : Nat := (cs.take t).count c
/-- number of slots with a code length below `c` -/
def Bc (cs : List Nat) (c : Nat) : Nat := csum (fun l => cs.count l) c
/-- where slot `k` goes -/
def pos (cs : List Nat) (k : Nat) : Nat := Bc cs (cs.getD k 0) + cnt cs k (cs.getD k 0)

theorem cnt_succ (cs : List Nat) (t c : Nat) (ht : t < cs.length) :
    cnt cs (t + 1) c = cnt cs t c + (if cs.getD t 0 = c then 1 else 0) := by
  unfold cnt
  rw [List.take_succ, List.count_append]
  simp only [List.getD_eq_getElem?_getD, List.getElem?_eq_getElem ht, Option.toList_some, Option.getD_some,
    List.count_cons, List.count_nil, beq_iff_eq, Nat.zero_add]

theorem cnt_mono (cs : List Nat) (c : Nat) {t t' : Nat} (h : t ≤ t') : cnt cs t c ≤ cnt cs t' c := by
  unfold cnt
  apply List.Sublist.count_le
  have : cs.take t = (cs.take t').take t := by rw [List.take_take, Nat.min_eq_left h]
  rw [this]; exact List.take_sublist _ _

theorem cnt_le_count (cs : List Nat) (t c : Nat) : cnt cs t c ≤ cs.count c := by
  unfold cnt; exact List.Sublist.count_le c (List.take_sublist _ _)

theorem cnt_lt (cs : List Nat) {k k' : Nat} (h : k < k') (hk : k < cs.length) :
    cnt cs k (cs.getD k 0) + 1 ≤ cnt cs k' (cs.getD k 0) := by
  have h1 := cnt_succ cs k (cs.getD k 0) hk
  have h2 := cnt_mono cs (cs.getD k 0) (show k + 1 ≤ k' by omega)
  simp only [if_true] at h1
  omega

theorem cnt_lt_count (cs : List Nat) {k : Nat} (hk : k < cs.length) :
    cnt cs k (cs.getD k 0) + 1 ≤ cs.count (cs.getD k 0) := by
  have h1 := cnt_succ cs k (cs.getD k 0) hk
  have h2 := cnt_le_count cs (k + 1) (cs.getD k 0)
  simp only [if_true] at h1
  omega

theorem Bc_succ (cs : List Nat) (c : Nat) : Bc cs (c + 1) = Bc cs c + cs.count c := rfl

theorem Bc_mono (cs : List Nat) {c c' : Nat} (h : c ≤ c') : Bc cs c ≤ Bc cs c' := by
  induction c' with
  | zero => have : c = 0 := by omega
            subst this; exact Nat.le_refl _
  | succ d ih =>
    by_cases e : c = d + 1
    · subst e; exact Nat.le_refl _
    · have := ih (by omega); rw [Bc_succ]; omega

theorem Bc_total : ∀ (cs : List Nat) (c : Nat), (∀ d ∈ cs, d < c) → Bc cs c = cs.length := by
  intro cs
  induction cs with
  | nil =>
    intro c _; unfold Bc; simp only [List.count_nil, List.length_nil]
    clear *-
    induction c with
    | zero => rfl
    | succ c ih => simp only [csum, ih]
  | cons d ds ih =>
    intro c h
    unfold Bc at ih ⊢
    rw [csum_count_cons, ih c (fun x hx => h x (by simp [hx]))]
    have := h d (by simp)
    simp [this]

/-- the block of positions reserved for code length `cs[k]` contains the position of slot `k` -/
theorem pos_block (cs : List Nat) {k : Nat} (hk : k < cs.length) :
    Bc cs (cs.getD k 0) ≤ pos cs k ∧ pos cs k < Bc cs (cs.getD k 0 + 1) := by
  have := cnt_lt_count cs hk
  unfold pos; rw [Bc_succ]; omega

theorem pos_lt_of_cs_lt (cs : List Nat) {k k' : Nat} (hk : k < cs.length) (hk' : k' < cs.length)
    (h : cs.getD k 0 < cs.getD k' 0) : pos cs k < pos cs k' := by
  have h1 := (pos_block cs hk).2
  have h2 := (pos_block cs hk').1
  have h3 := Bc_mono cs (show cs.getD k 0 + 1 ≤ cs.getD k' 0 by omega)
  omega

theorem pos_inj (cs : List Nat) {k k' : Nat} (hk : k < cs.length) (hk' : k' < cs.length) (hne : k ≠ k') :
    pos cs k ≠ pos cs k' := by
  rcases Nat.lt_trichotomy (cs.getD k 0) (cs.getD k' 0) with h | h | h
  · have := pos_lt_of_cs_lt cs hk hk' h; omega
  · rcases Nat.lt_or_gt_of_ne hne with h2 | h2
    · have := cnt_lt cs h2 hk
      unfold pos; rw [← h]; omega
    · have := cnt_lt cs h2 hk'
      unfold pos; rw [h]; omega
  · have := pos_lt_of_cs_lt cs hk' hk h; omega

/-- with the last slot on the deepest level, every other slot gets a position below `m` -/
theorem pos_lt (cs : List Nat) (m : Nat) (hlen : cs.length = m + 1)
    (hmax : ∀ c ∈ cs, c ≤ cs.getD m 0) {k : Nat} (hk : k < m) : pos cs k < m := by
  have hk' : k < cs.length := by omega
  have hm' : m < cs.length := by omega
  have hck : cs.getD k 0 ≤ cs.getD m 0 := hmax _ (getD_mem hk')
  have htot : Bc cs (cs.getD m 0 + 1) = m + 1 := by
    rw [Bc_total cs _ (fun d hd => by have := hmax d hd; omega), hlen]
  rw [Bc_succ] at htot
  rcases Nat.lt_or_eq_of_le hck with h | h
  · have h1 := (pos_block cs hk').2
    have h2 := Bc_mono cs (show cs.getD k 0 + 1 ≤ cs.getD m 0 by omega)
    have h3 := cnt_lt_count cs hm'
    omega
  · have h1 := cnt_lt cs hk hk'
    have h2 := cnt_lt_count cs hm'
    rw [h] at h1
    unfold pos; rw [h]; omega

theorem b0Of_f (cs : List Nat) (h : ∀ c ∈ cs, c ≤ 32) (l : Nat) : (b0Of cs).f l = cs.count l := by
  simp only [b0Of, getD_map_range]
  by_cases hl : l < 33
  · simp [hl]
  · simp only [hl, if_false]
    symm; apply List.count_eq_zero.2
    intro hm; have := h l hm; omega

theorem bitPos_succ (b : Bits) (c : Nat) :
    (bitPos b).f (c + 1) = (bitPos b).f c + (if c = 0 then 0 else b.f c) := by
  unfold bitPos
  simp only
  cases c with
  | zero => simp [List.range_succ]
  | succ d =>
    rw [List.range_succ, List.drop_append_of_le_length (by simp)]
    simp

theorem bitPos_eq_Bc (cs : List Nat) (h : ∀ c ∈ cs, c ≤ 32) (h0 : cs.count 0 = 0) :
    ∀ c, (bitPos (b0Of cs)).f c = Bc cs c := by
  intro c
  induction c with
  | zero => simp [bitPos, Bc, csum]
  | succ d ih =>
    rw [bitPos_succ, Bc_succ, ih, b0Of_f cs h]
    by_cases e : d = 0
    · subst e; simp [h0]
    · simp [e]

/-- one iteration of the loop that fills `huffval[]` -/
def fstep (cs nz : List Nat) (st : Array Nat × Bits) (k : Nat) : Array Nat × Bits :=
  (st.1.setIfInBounds (st.2.f (cs.getD k 0)) (nz.getD k 0 % 256), st.2.upd (cs.getD k 0) (st.2.f (cs.getD k 0) + 1))

theorem placeVals_eq (cs nz : List Nat) (m : Nat) (bp : Bits) :
    placeVals cs nz m bp = ((List.range m).foldl (fstep cs nz) (Array.replicate 256 0, bp)).1 := rfl

structure FI (cs nz : List Nat) (t : Nat) (st : Array Nat × Bits) : Prop where
  size : st.1.size = 256
  bp : ∀ c, st.2.f c = Bc cs c + cnt cs t c
  val : ∀ k, k < t → st.1.getD (pos cs k) 0 = nz.getD k 0 % 256

theorem fold_FI (cs nz : List Nat) (m : Nat) (hlen : cs.length = m + 1) (hm : m ≤ 256)
    (hmax : ∀ c ∈ cs, c ≤ cs.getD m 0) (bp : Bits) (hbp : ∀ c, bp.f c = Bc cs c) :
    ∀ t, t ≤ m → FI cs nz t ((List.range t).foldl (fstep cs nz) (Array.replicate 256 0, bp)) := by
  intro t
  induction t with
  | zero =>
    intro _
    exact ⟨by simp, fun c => by simp [hbp, cnt], fun k hk => by omega⟩
  | succ t ih =>
    intro ht
    have h := ih (by omega)
    rw [List.range_succ, List.foldl_append]
    generalize (List.range t).foldl (fstep cs nz) (Array.replicate 256 0, bp) = st at h
    simp only [List.foldl_cons, List.foldl_nil, fstep]
    have ht' : t < cs.length := by omega
    have hidx : st.2.f (cs.getD t 0) = pos cs t := by rw [h.bp]; rfl
    have hpos : pos cs t < 256 := by have := pos_lt cs m hlen hmax (show t < m by omega); omega
    refine ⟨by simp [h.size], ?_, ?_⟩
    · intro c
      simp only [Bits.upd_f]
      rw [cnt_succ cs t c ht']
      by_cases e : c = cs.getD t 0
      · subst e; simp only [if_true]; rw [h.bp]; omega
      · have e' : ¬ cs.getD t 0 = c := fun x => e x.symm
        simp only [e, e', if_false]; rw [h.bp]; omega
    · intro k hk
      simp only
      rw [hidx, getD_set _ _ _ _ (by rw [h.size]; exact hpos)]
      by_cases e : k = t
      · subst e; simp
      · have := pos_inj cs ht' (show k < cs.length by omega) (Ne.symm e)
        rw [if_neg this]
        exact h.val k (by omega)

/-- **`huffval[]`.**  With `codesize[]` values `cs` for `m` real symbols plus the pseudo-symbol in the last
slot, the pseudo-symbol on the deepest level and no length 0, the array returned lists the symbols `nz[0..m)`:
symbol `k` stands at position `pos cs k < m`, positions are distinct, and a symbol with a shorter code
stands before every symbol with a longer one. -/
theorem placeVals_spec (cs nz : List Nat) (m : Nat) (hlen : cs.length = m + 1) (hm : m ≤ 256)
    (hmax : ∀ c ∈ cs, c ≤ cs.getD m 0) (h32 : ∀ c ∈ cs, c ≤ 32) (h0 : cs.count 0 = 0) :
    let vals := (placeVals cs nz m (bitPos (b0Of cs))).toList.take m
    vals.length = m ∧ (∀ k, k < m → pos cs k < m ∧ vals.getD (pos cs k) 0 = nz.getD k 0 % 256) ∧
    vals.Perm ((List.range m).map (fun k => nz.getD k 0 % 256)) := by
  intro vals
  have hF := fold_FI cs nz m hlen hm hmax (bitPos (b0Of cs)) (bitPos_eq_Bc cs h32 h0) m (Nat.le_refl _)
  have hsize : (placeVals cs nz m (bitPos (b0Of cs))).size = 256 := hF.size
  have hvalF : ∀ k, k < m → (placeVals cs nz m (bitPos (b0Of cs))).getD (pos cs k) 0 = nz.getD k 0 % 256 := hF.val
  have hlenv : vals.length = m := by
    simp only [vals, List.length_take, Array.length_toList, hsize]; omega
  have hval : ∀ k, k < m → pos cs k < m ∧ vals.getD (pos cs k) 0 = nz.getD k 0 % 256 := by
    intro k hk
    have hp := pos_lt cs m hlen hmax hk
    refine ⟨hp, ?_⟩
    have := hvalF k hk
    rw [← toList_getD] at this
    simp only [vals, List.getD_eq_getElem?_getD, List.getElem?_take_of_lt hp] at this ⊢
    exact this
  refine ⟨hlenv, hval, ?_⟩
  -- the positions are a rearrangement of 0 .. m-1
  have hnd : ((List.range m).map (pos cs)).Nodup := by
    apply List.Nodup.map_on _ List.nodup_range
    intro x hx y hy e
    apply Classical.byContradiction
    intro hne
    exact pos_inj cs (show x < cs.length by have := List.mem_range.1 hx; omega)
      (show y < cs.length by have := List.mem_range.1 hy; omega) hne e
  have hsub : (List.range m).map (pos cs) ⊆ List.range m := by
    intro q hq
    obtain ⟨k, hk, e⟩ := List.mem_map.1 hq
    rw [← e]; exact List.mem_range.2 (pos_lt cs m hlen hmax (List.mem_range.1 hk))
  have hperm : ((List.range m).map (pos cs)).Perm (List.range m) :=
    (List.subperm_of_subset hnd hsub).perm_of_length_le (by simp)
  have e1 : vals = (List.range m).map (fun q => vals.getD q 0) := by
    apply List.ext_getElem
    · simp [hlenv]
    · intro i h1 h2
      simp [List.getD_eq_getElem?_getD, List.getElem?_eq_getElem h1]
  have e2 : ((List.range m).map (pos cs)).map (fun q => vals.getD q 0) =
      (List.range m).map (fun k => nz.getD k 0 % 256) := by
    rw [List.map_map]
    apply List.map_congr_left
    intro k hk
    exact (hval k (List.mem_range.1 hk)).2
  rw [← e2]
  conv => lhs; rw [e1]
  exact (hperm.map _).symm

end LJT.Huff
