/-! In-memory destination managers: `jpeg_mem_dest_tj` (src/jdatadst-tj.c) and
`jpeg_mem_dest` (src/jdatadst.c), as a state machine over an abstract heap.

The client (marker writer / entropy encoder) follows the libjpeg protocol:
* `emit_byte`: store at `next_output_byte`, decrement `free_in_buffer`, call
  `empty_output_buffer` when it reaches 0;
* direct block store (jchuff.c `STORE_BUFFER`, non-local case): only when
  `free_in_buffer ≥ BUFSIZE`, stores fewer than `BUFSIZE` bytes, no callback.
A buffer is identified by an id; `cap` is what the manager believes its size is
(`dest->bufsize`), `data` the bytes stored so far (`bufsize - free_in_buffer` of them). -/
namespace LJT.Dest

def OUTPUT_BUF_SIZE : Nat := 4096
def BUFSIZE : Nat := 512

inductive Kind | tj | std
deriving Repr, DecidableEq

structure State where
  kind : Kind
  alloc : Bool            -- may the manager (re)allocate?  (always true for `std`)
  bufId : Nat             -- identity of dest->buffer (0 = caller's buffer, n>0 = n-th library allocation)
  cap : Nat               -- dest->bufsize
  free : Nat              -- dest->pub.free_in_buffer
  rdata : List Nat        -- bytes written so far into dest->buffer, newest first (so a store is O(1))
  nalloc : Nat            -- number of library allocations so far (fresh ids)
  lib : Option Nat := none  -- dest->newbuffer: the buffer the manager itself allocated and may free
  frees : List Nat := []  -- ids passed to free() since `start`
deriving Repr, DecidableEq

inductive Err | bufferSize
deriving Repr, DecidableEq

/-- the bytes in the buffer, in address order -/
def State.data (s : State) : List Nat := s.rdata.reverse



/-- what the caller passes: `none` = NULL pointer; `some c` = own buffer whose declared
size (`*outsize`) is `c`.  `reuse prevCap` = the pointer returned by the previous call on
this manager (still `dest->buffer`), whose `*outsize` now holds the previous JPEG size. -/
inductive OutBuf
  | null
  | own (declared : Nat)
  | reuse (declaredNow : Nat)
deriving Repr, DecidableEq

/-- `jpeg_mem_dest_tj` / `jpeg_mem_dest`.  `prev` is the manager state left by the
previous image on the same compress object (for the `reused` test of the TJ variant). -/
def start (kind : Kind) (alloc : Bool) (ob : OutBuf) (prev : Option State) : Except Err State :=
  let alloc := match kind with | .std => true | .tj => alloc
  let nalloc := match prev with | some p => p.nalloc | none => 0
  -- the TJ manager recognises the buffer of the previous image (with reallocation enabled) and then ignores the size
  -- passed with it - also a size of 0 (repair of D41)
  let reusedNow : Bool := match ob, prev with
    | .reuse _, some _ => kind == .tj && alloc
    | _, _ => false
  let needNew : Bool := match ob with
    | .null => true
    | .own d => d == 0
    | .reuse d => d == 0 && !reusedNow
  if needNew then
    if alloc then .ok ⟨kind, alloc, nalloc + 1, OUTPUT_BUF_SIZE, OUTPUT_BUF_SIZE, [], nalloc + 1, some (nalloc + 1), []⟩
    else .error .bufferSize
  else match ob, prev with
    | .reuse d, some p =>
      -- same pointer as dest->buffer: the TJ manager keeps its own idea of the capacity
      let reused := kind == .tj && alloc
      -- (repair of D11) a buffer allocated for an earlier image stays the manager's only if
      -- the caller hands exactly that buffer back; `jpeg_mem_dest` always forgets it
      let lib := if kind == .tj && p.lib == some p.bufId then p.lib else none
      let c := if reused then p.cap else d
      .ok ⟨kind, alloc, p.bufId, c, c, [], nalloc, lib, []⟩
    | .own d, _ => .ok ⟨kind, alloc, 0, d, d, [], nalloc, none, []⟩
    | .reuse d, none => .ok ⟨kind, alloc, 0, d, d, [], nalloc, none, []⟩
    | .null, _ => .error .bufferSize   -- unreachable

/-- `empty_mem_output_buffer`: called with the buffer full -/
def grow (s : State) : Except Err State :=
  if s.alloc then
    .ok { s with bufId := s.nalloc + 1, cap := s.cap * 2, free := s.cap, nalloc := s.nalloc + 1,
                 lib := some (s.nalloc + 1), frees := s.frees ++ s.lib.toList }
  else .error .bufferSize

/-- `emit_byte` -/
def putByte (s : State) (b : Nat) : Except Err State :=
  let s' := { s with rdata := b :: s.rdata, free := s.free - 1 }
  if s'.free = 0 then grow s' else .ok s'

def putBytes (s : State) (bs : List Nat) : Except Err State := bs.foldlM putByte s

/-- direct block store: legal only when `free ≥ BUFSIZE` and `bs.length < BUFSIZE`;
otherwise the encoder goes through its local buffer, i.e. byte-wise with the callback. -/
def putBlock (s : State) (bs : List Nat) : Except Err State :=
  if BUFSIZE ≤ s.free ∧ bs.length < BUFSIZE then .ok { s with rdata := bs.reverse ++ s.rdata, free := s.free - bs.length }
  else putBytes s bs

/-- `term_mem_destination`: `(*outsize, contents, buffer id returned in *outbuffer)` -/
def term (s : State) : Nat × List Nat × Nat := (s.cap - s.free, s.data, s.bufId)

/-- the manager's invariant between client calls: at least one free byte, and
`free_in_buffer` accounts exactly for the bytes stored -/
def Good (s : State) : Prop := 0 < s.free ∧ s.free + s.rdata.length = s.cap

end LJT.Dest
