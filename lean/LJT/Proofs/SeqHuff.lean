import LJT.Model.SeqHuff
import LJT.Proofs.Lossless
/-! Round trip of the sequential Huffman block coder (C03). -/
namespace LJT.SeqHuff
open LJT.Huff LJT.LL

/-- category / extra bits of a non-zero coefficient of magnitude below 2^15 -/
theorem category_small (v : Int) (hv0 : v ≠ 0) (hv : v.natAbs < 32768) :
    1 ≤ (category v).1 ∧ (category v).1 ≤ 15 ∧ (category v).2.2 = (category v).1 ∧
    (category v).2.1 < 2 ^ (category v).1 ∧ extend (category v).1 (category v).2.1 = v := by
  obtain ⟨hcong, hle, hex, hnex⟩ := extend_category v
  generalize category v = cat at *
  obtain ⟨nb, ex, nex⟩ := cat
  simp only at *
  unfold Cong16 at hcong
  have h0 : nb ≠ 0 := by
    intro h; subst h; simp [extend] at hcong; omega
  have h16 : nb ≠ 16 := by
    intro h; subst h; simp [extend] at hcong; omega
  have hnn : nex = nb := by simpa [h16] using hnex
  subst hnn
  refine ⟨by omega, by omega, rfl, hex, ?_⟩
  -- extend lies strictly inside (-2^15, 2^15)
  have hp : 2 ^ nex ≤ 2 ^ 15 := Nat.pow_le_pow_right (by omega) (by omega)
  have hp1 : 1 ≤ 2 ^ (nex - 1) := Nat.one_le_two_pow
  unfold extend at hcong ⊢
  simp only [h0, h16, if_false] at hcong ⊢
  split at hcong <;> rename_i hlt <;> simp only [hlt, if_true, if_false] <;> omega

theorem decodeAC_succ (dd : DDerived) (f rem : Nat) (bits : List Bool) :
    decodeAC dd (f + 1) rem bits =
      if rem = 0 then some ([], bits) else
      match decode dd bits with
      | none => none
      | some (_, true, _) => none
      | some (s, false, rest) =>
        if s % 16 ≠ 0 then
          if s / 16 + 1 > rem then none
          else if rest.length < s % 16 then none
          else
            match decodeAC dd f (rem - s / 16 - 1) (rest.drop (s % 16)) with
            | none => none
            | some (l, b) => some (List.replicate (s / 16) 0 ++ extend (s % 16) (bitsNat (rest.take (s % 16))) :: l, b)
        else if s / 16 = 15 then
          if 16 > rem then none
          else
            match decodeAC dd f (rem - 16) rest with
            | none => none
            | some (l, b) => some (List.replicate 16 0 ++ l, b)
        else if s / 16 = 0 then some (List.replicate rem 0, rest)
        else none := by
  rfl

theorem zrl_decode (t : Tbl) (c : CDerived) (dd : DDerived)
    (hc : mkCDerived false false t = some c) (hd : mkDDerived false false t = some dd) :
    ∀ (n fuel m : Nat) (z X : List Bool), zrlBits c n = some z → 0 < m →
      decodeAC dd (fuel + n) (16 * n + m) (z ++ X) =
        (decodeAC dd fuel m X).map (fun p => (List.replicate (16 * n) 0 ++ p.1, p.2)) := by
  intro n
  induction n with
  | zero =>
    intro fuel m z X hz _
    simp [zrlBits] at hz; subst hz
    cases h : decodeAC dd fuel m X <;> simp [h]
  | succ k ih =>
    intro fuel m z X hz hm
    unfold zrlBits at hz
    cases he : encode c 0xF0 with
    | none => simp [he] at hz
    | some zb =>
      cases hr : zrlBits c k with
      | none => simp [he, hr] at hz
      | some zr =>
        simp [he, hr] at hz; subst hz
        have hdec := decode_encode false false t c dd hc hd 0xF0 zb he (zr ++ X)
        have hrem : 16 * (k + 1) + m ≠ 0 := by omega
        rw [show fuel + (k + 1) = (fuel + k) + 1 by omega, decodeAC_succ]
        rw [if_neg hrem, List.append_assoc, hdec]
        simp only [show (0xF0 : Nat) / 16 = 15 by decide, show (0xF0 : Nat) % 16 = 0 by decide, ne_eq, not_true_eq_false, if_false, if_true]
        rw [if_neg (by omega)]
        rw [show 16 * (k + 1) + m - 16 = 16 * k + m by omega, ih fuel m zr X hr hm]
        cases h : decodeAC dd fuel m X with
        | none => rfl
        | some p =>
          simp only [Option.map_some]
          rw [show 16 * (k + 1) = 16 + 16 * k by omega, ← List.replicate_append_replicate, List.append_assoc]

/-- **the 63 AC coefficients of a block are decoded exactly** (any valid table that contains
the symbols the block needs) -/
theorem decodeAC_encodeAC (t : Tbl) (c : CDerived) (dd : DDerived)
    (hc : mkCDerived false false t = some c) (hd : mkDDerived false false t = some dd) :
    ∀ (ac : List Int) (r fuel : Nat) (bits rest : List Bool), (∀ v ∈ ac, v.natAbs < 32768) →
      encodeAC c r ac = some bits → r + ac.length < fuel →
      decodeAC dd fuel (r + ac.length) (bits ++ rest) = some (List.replicate r 0 ++ ac, rest) := by
  intro ac
  induction ac with
  | nil =>
    intro r fuel bits rest _ he hf
    unfold encodeAC at he
    by_cases hr : r = 0
    · subst hr; simp at he; subst he
      cases fuel <;> simp [decodeAC]
    · simp only [hr, if_false] at he
      obtain ⟨f, rfl⟩ : ∃ f, fuel = f + 1 := ⟨fuel - 1, by omega⟩
      have hdec := decode_encode false false t c dd hc hd 0 bits he rest
      rw [decodeAC_succ]
      simp only [List.length_nil, Nat.add_zero, hr, if_false, hdec, Nat.zero_div, Nat.zero_mod, ne_eq, not_true_eq_false,
        show ¬ ((0 : Nat) = 15) by omega, if_true, List.append_nil]
  | cons v tl ih =>
    intro r fuel bits rest hv he hf
    have hvt : ∀ x ∈ tl, x.natAbs < 32768 := fun x hx => hv x (by simp [hx])
    unfold encodeAC at he
    by_cases hv0 : v = 0
    · subst hv0
      simp only [if_true] at he
      have := ih (r + 1) fuel bits rest hvt he (by simp at hf ⊢; omega)
      rw [show r + (0 :: tl).length = r + 1 + tl.length by simp; omega, this]
      congr 1
      rw [List.replicate_succ', List.append_assoc]; rfl
    · simp only [hv0, if_false] at he
      obtain ⟨h1, h15, hnex, hex, hext⟩ := category_small v hv0 (hv v (by simp))
      generalize category v = cat at *
      obtain ⟨nb, ex, nex⟩ := cat
      simp only at *
      subst hnex
      cases hz : zrlBits c (r / 16) with
      | none => simp [hz] at he
      | some z =>
        cases hs : encode c (r % 16 * 16 + nex) with
        | none => simp [hz, hs] at he
        | some s =>
          cases hrest : encodeAC c 0 tl with
          | none => simp [hz, hs, hrest] at he
          | some tb =>
            simp [hz, hs, hrest] at he; subst he
            -- strip the ZRLs
            have hsplit : r + (v :: tl).length = 16 * (r / 16) + (r % 16 + 1 + tl.length) := by simp; omega
            obtain ⟨f0, hf0⟩ : ∃ f0, fuel = f0 + r / 16 := ⟨fuel - r / 16, by simp at hf; omega⟩
            rw [hsplit, hf0, List.append_assoc, zrl_decode t c dd hc hd (r / 16) f0 _ z _ hz (by omega)]
            -- the (run, size) symbol
            obtain ⟨f1, hf1⟩ : ∃ f1, f0 = f1 + 1 := ⟨f0 - 1, by simp at hf; omega⟩
            subst hf1
            have hdec := decode_encode false false t c dd hc hd _ s hs (natBits ex nex ++ (tb ++ rest))
            have hrem : r % 16 + 1 + tl.length ≠ 0 := by omega
            rw [decodeAC_succ, if_neg hrem]
            simp only [List.append_assoc] at hdec ⊢
            rw [hdec]
            have hq : (r % 16 * 16 + nex) / 16 = r % 16 := by omega
            have hm : (r % 16 * 16 + nex) % 16 = nex := by omega
            simp only [hq, hm]
            rw [if_pos (show nex ≠ 0 by omega), if_neg (show ¬ (r % 16 + 1 > r % 16 + 1 + tl.length) by omega)]
            have hlen : (natBits ex nex ++ (tb ++ rest)).length = nex + (tb ++ rest).length := by
              simp [natBits, codeBits_length]
            rw [if_neg (by omega)]
            have htake : (natBits ex nex ++ (tb ++ rest)).take nex = natBits ex nex := by
              rw [List.take_append_of_le_length (by simp [natBits, codeBits_length])]
              rw [List.take_of_length_le (by simp [natBits, codeBits_length])]
            have hdrop : (natBits ex nex ++ (tb ++ rest)).drop nex = tb ++ rest := by
              rw [List.drop_append_of_le_length (by simp [natBits, codeBits_length])]
              rw [List.drop_of_length_le (by simp [natBits, codeBits_length])]
              rfl
            rw [htake, hdrop, bitsNat_natBits ex nex hex, hext]
            have hih := ih 0 f1 tb rest hvt hrest (by simp at hf; omega)
            rw [show r % 16 + 1 + tl.length - r % 16 - 1 = 0 + tl.length by omega, hih]
            simp only [List.replicate_zero, List.nil_append, Option.map_some]
            congr 1
            rw [← List.append_assoc, List.replicate_append_replicate]
            congr 2
            rw [show 16 * (r / 16) + r % 16 = r by omega]

/-- one category-coded value decodes to a congruent value, for any table kind -/
theorem decodeItem_itemBits_gen (isDC lossless : Bool) (t : Tbl) (c : CDerived) (dd : DDerived)
    (hc : mkCDerived isDC lossless t = some c) (hd : mkDDerived isDC lossless t = some dd)
    (d : Int) (bs rest : List Bool) (h : itemBits c d = some bs) :
    decodeItem dd (bs ++ rest) = some (extend (category d).1 (category d).2.1, rest) := by
  obtain ⟨hcong, hle, hex, hnex⟩ := extend_category d
  unfold itemBits at h
  obtain ⟨nb, ex, nex, hcat⟩ : ∃ nb ex nex, category d = (nb, ex, nex) := ⟨_, _, _, rfl⟩
  rw [hcat] at hcong hle hex hnex h ⊢
  simp only at hcong hle hex hnex h ⊢
  cases hcode : encode c nb with
  | none => rw [hcode] at h; cases h
  | some code =>
    rw [hcode] at h
    injection h with h
    subst h
    have hdec := decode_encode isDC lossless t c dd hc hd nb code hcode (natBits ex nex ++ rest)
    unfold decodeItem
    rw [List.append_assoc, hdec]
    simp only
    by_cases h0 : nb = 0
    · subst h0
      have hnex0 : nex = 0 := by simpa using hnex
      subst hnex0
      simp only [natBits, codeBits_zero, List.nil_append, if_true]
      simp [extend]
    · by_cases h16 : nb = 16
      · subst h16
        have hnex0 : nex = 0 := by simpa using hnex
        subst hnex0
        simp only [natBits, codeBits_zero, List.nil_append]
        simp [extend]
      · have hnexnb : nex = nb := by simpa [h16] using hnex
        subst hnexnb
        simp only [h0, h16, if_false]
        have hlen : (natBits ex nex ++ rest).length = nex + rest.length := by
          simp [natBits, codeBits_length]
        have hnl : ¬ ((natBits ex nex ++ rest).length < nex) := by omega
        simp only [hnl, if_false]
        have htake : (natBits ex nex ++ rest).take nex = natBits ex nex := by
          rw [List.take_append_of_le_length (by simp [natBits, codeBits_length])]
          rw [List.take_of_length_le (by simp [natBits, codeBits_length])]
        have hdrop : (natBits ex nex ++ rest).drop nex = rest := by
          rw [List.drop_append_of_le_length (by simp [natBits, codeBits_length])]
          rw [List.drop_of_length_le (by simp [natBits, codeBits_length])]
          rfl
        rw [htake, hdrop, bitsNat_natBits ex nex hex]

theorem itemBits_decode (isDC lossless : Bool) (t : Tbl) (c : CDerived) (dd : DDerived)
    (hc : mkCDerived isDC lossless t = some c) (hd : mkDDerived isDC lossless t = some dd)
    (d : Int) (bs rest : List Bool) (h : itemBits c d = some bs) :
    ∃ r, decode dd (bs ++ rest) = some ((category d).1, false, r) := by
  unfold itemBits at h
  obtain ⟨nb, ex, nex, hcat⟩ : ∃ nb ex nex, category d = (nb, ex, nex) := ⟨_, _, _, rfl⟩
  rw [hcat] at h ⊢
  simp only at h ⊢
  cases hcode : encode c nb with
  | none => rw [hcode] at h; cases h
  | some code =>
    rw [hcode] at h
    injection h with h
    subst h
    exact ⟨_, by rw [List.append_assoc]; exact decode_encode isDC lossless t c dd hc hd nb code hcode _⟩

/-- **a whole block round-trips**: DC difference and all 63 AC coefficients -/
theorem decodeBlock_encodeBlock (tdc tac : Tbl) (cdc cac : CDerived) (ddc dac : DDerived)
    (h1 : mkCDerived true false tdc = some cdc) (h2 : mkDDerived true false tdc = some ddc)
    (h3 : mkCDerived false false tac = some cac) (h4 : mkDDerived false false tac = some dac)
    (diff : Int) (ac : List Int) (hlen : ac.length = 63) (hd : diff.natAbs < 32768)
    (hac : ∀ v ∈ ac, v.natAbs < 32768) (bits rest : List Bool) (he : encodeBlock cdc cac diff ac = some bits) :
    decodeBlock ddc dac (bits ++ rest) = some (diff, ac, rest) := by
  unfold encodeBlock at he
  cases hi : itemBits cdc diff with
  | none => simp [hi] at he
  | some db =>
    cases ha : encodeAC cac 0 ac with
    | none => simp [hi, ha] at he
    | some ab =>
      simp [hi, ha] at he; subst he
      have hd' := decodeItem_itemBits_gen true false tdc cdc ddc h1 h2 diff db (ab ++ rest) hi
      have hacdec := decodeAC_encodeAC tac cac dac h3 h4 ac 0 64 ab rest hac ha (by omega)
      obtain ⟨r0, hflag⟩ := itemBits_decode true false tdc cdc ddc h1 h2 diff db (ab ++ rest) hi
      unfold decodeBlock
      rw [List.append_assoc, hflag]
      simp only
      rw [hd']
      simp only [Nat.zero_add, hlen] at hacdec
      simp only [hacdec, List.replicate_zero, List.nil_append]
      by_cases h0 : diff = 0
      · subst h0
        have hz : nbitsClz 17 0 = 0 := by decide
        simp [category, extend, bitLen, hz]
      · rw [(category_small diff h0 hd).2.2.2.2]

end LJT.SeqHuff
