import LJT.Model.T81Enc
import LJT.Model.ProgAC
/-! The progressive Huffman *encoder* (src/jcphuff.c: `encode_mcu_DC_first`, `encode_mcu_AC_first`,
`encode_mcu_DC_refine`, `encode_mcu_AC_refine`, `emit_eobrun`, `emit_restart`,
`finish_pass_gather_phuff`) and the file layout around it (src/jcmarker.c, src/jcparam.c
`jpeg_simple_progression`, src/jchuff.c `jpeg_gen_optimal_table` = `Huff.genOptimalTable`).
The control flow of the encoder does not depend on the Huffman tables, so a scan is first
turned into a list of events (symbols of a table, raw bits, restart markers); the statistics
pass counts the symbols, the output pass maps them to codes. -/
namespace LJT.ProgHuff
open LJT LJT.Huff LJT.T81 LJT.T81Enc

inductive Ev
  | sym (isDC : Bool) (tbl : Nat) (s : Nat)
  | bits (v n : Nat)
  | rst (n : Nat)
deriving Repr

/-- zigzag-ordered coefficients of one block -/
def blockZZ (coef : Nat → Nat → Nat → Nat → Int) (ci by_ bx : Nat) : List Int :=
  (List.range 64).map (fun k => coef ci by_ bx (Gen.naturalOrder.getD k 0))

/-- arithmetic shift right of an Int -/
def asr (x : Int) (n : Nat) : Int := x / 2 ^ n

/-- split a list into chunks of `n` (one chunk if `n = 0`) -/
def chunks {α : Type} (n : Nat) (l : List α) : List (List α) :=
  if n = 0 then [l] else
  (List.range (ceilDiv l.length n)).map (fun i => (l.drop (i * n)).take n)

def tagAC (tbl : Nat) : ProgAC.Ev → Ev
  | .sym s => .sym false tbl s
  | .bits v n => .bits v n

/-- join the event lists of the restart intervals with RSTn markers -/
def joinRst : Nat → List (List Ev) → List Ev
  | _, [] => []
  | _, [x] => x
  | n, x :: y :: t => x ++ [Ev.rst (n % 8)] ++ joinRst (n + 1) (y :: t)

/-- point transform of a first-pass AC scan: sign · (|c| >> Al) -/
def pointFirst (al : Nat) (v : Int) : Int :=
  if v < 0 then - ((v.natAbs / 2 ^ al : Nat) : Int) else ((v.natAbs / 2 ^ al : Nat) : Int)

/-- what a refinement scan looks at: (|c| >> Al, c < 0) -/
def pointRef (al : Nat) (v : Int) : Nat × Bool := (v.natAbs / 2 ^ al, decide (v < 0))

/-- the bands `ss..se` (zigzag order) of the blocks of an AC scan, one list per restart interval -/
def acScanBands (f : Frame) (hmax vmax : Nat) (coef : Nat → Nat → Nat → Nat → Int) (ci ss se ri : Nat) : List (List (List Int)) :=
  let c := f.comps.getD ci ⟨0, 1, 1, 0⟩
  let mcusX := ceilDiv (ceilDiv (f.width * c.h) hmax) 8
  let mcusY := ceilDiv (ceilDiv (f.height * c.v) vmax) 8
  let band := fun (m : Nat) =>
    let zzb := blockZZ coef ci (m / mcusX) (m % mcusX)
    (List.range (se - ss + 1)).map (fun j => zzb.getD (ss + j) 0)
  chunks ri ((List.range (mcusX * mcusY)).map band)

/-- events of an AC scan (one component, one block per MCU, `encode_mcu_AC_first` /
`encode_mcu_AC_refine`), one list per restart interval: every interval is coded by the pure
functions of Model/ProgAC.lean starting from EOBRUN = 0 and ending with the flush of
`emit_restart` / `finish_pass` -/
def acScanIntervals (f : Frame) (hmax vmax : Nat) (coef : Nat → Nat → Nat → Nat → Int) (ci ss se ah al ri : Nat) : List (List ProgAC.Ev) :=
  (acScanBands f hmax vmax coef ci ss se ri).map (fun bs =>
    if ah == 0 then ProgAC.firstEv 0 (bs.map (fun b => b.map (pointFirst al)))
    else ProgAC.refEv 0 [] (bs.map (fun b => b.map (pointRef al))))

def acScanEvents (f : Frame) (hmax vmax : Nat) (coef : Nat → Nat → Nat → Nat → Int)
    (ci atbl ss se ah al ri : Nat) : List Ev :=
  joinRst 0 ((acScanIntervals f hmax vmax coef ci ss se ah al ri).map (fun iv => iv.map (tagAC atbl)))

def joinRstBytes : Nat → List (List Nat) → List Nat
  | _, [] => []
  | _, [x] => x
  | n, x :: y :: t => x ++ [0xFF, 0xD0 + n % 8] ++ joinRstBytes (n + 1) (y :: t)

/-- the entropy-coded data of an AC scan: every interval is `ProgAC.evBits` of its events under the
scan's table, padded and stuffed (`Bits.segmentBytes`), intervals joined by RSTn -/
def acScanBytes (c : CDerived) (ivs : List (List ProgAC.Ev)) : Option (List Nat) :=
  if ivs.all (fun iv => iv.all (fun e => match e with | .sym s => (Huff.encode c s).isSome | _ => true)) then
    some (joinRstBytes 0 (ivs.map (fun iv => Bits.segmentBytes (ProgAC.evBits (fun s => (Huff.encode c s).getD []) iv))))
  else none

/-- events of one scan.  `scs`: (frame component index, dc table, ac table). -/
def scanEvents (f : Frame) (hmax vmax : Nat) (coef : Nat → Nat → Nat → Nat → Int)
    (scs : List (Nat × Nat × Nat)) (ss se ah al ri : Nat) : List Ev := Id.run do
  if ss != 0 then
    let (ci, _, atbl) := scs.headD (0, 0, 0)
    return acScanEvents f hmax vmax coef ci atbl ss se ah al ri
  let ns := scs.length
  let compOf := fun (i : Nat) => f.comps.getD i ⟨0, 1, 1, 0⟩
  let c0 := compOf (scs.headD (0, 0, 0)).1
  let single := ns == 1
  let mcusX := if single then ceilDiv (ceilDiv (f.width * c0.h) hmax) 8 else ceilDiv f.width (8 * hmax)
  let mcusY := if single then ceilDiv (ceilDiv (f.height * c0.v) vmax) 8 else ceilDiv f.height (8 * vmax)
  let total := mcusX * mcusY
  let mut out : Array Ev := #[]
  let mut lastDC : Array Int := Array.replicate 4 0
  let mut restartsToGo := ri
  let mut nextRst := 0
  for m in [0:total] do
    -- restart handling at the start of an MCU
    if ri != 0 && restartsToGo == 0 then
      out := out.push (Ev.rst nextRst)
      lastDC := Array.replicate 4 0
      restartsToGo := ri
      nextRst := (nextRst + 1) % 8
    let my := m / mcusX
    let mx := m % mcusX
    -- DC scan: all blocks of the MCU, with libjpeg's dummy-block rule
    let mut prevDC : Int := 0
    for i in [0:ns] do
      let (ci, dtbl, _) := scs.getD i (0, 0, 0)
      let c := compOf ci
      let wb := ceilDiv (ceilDiv (f.width * c.h) hmax) 8
      let hb := ceilDiv (ceilDiv (f.height * c.v) vmax) 8
      let bh := if single then 1 else c.h
      let bv := if single then 1 else c.v
      for by_ in [0:bv] do
        for bx in [0:bh] do
          let real := decide (my * bv + by_ < hb) && decide (mx * bh + bx < wb)
          let dc : Int := if real then coef ci (my * bv + by_) (mx * bh + bx) 0 else prevDC
          prevDC := dc
          if ah == 0 then
            let t2 := asr dc al
            let diff := t2 - lastDC.getD i 0
            lastDC := lastDC.setIfInBounds i t2
            let cat := LL.category diff
            out := out.push (Ev.sym true dtbl cat.1)
            if cat.2.2 != 0 then out := out.push (Ev.bits cat.2.1 cat.2.2)
          else
            out := out.push (Ev.bits ((asr dc al) % 2).toNat 1)
    if ri != 0 then restartsToGo := restartsToGo - 1
  return out.toList

/-- symbol counts of a scan for table (isDC, tbl): 257 entries -/
def countSyms (evs : List Ev) (isDC : Bool) (tbl : Nat) : List Nat :=
  (evs.foldl (fun (a : Array Nat) e => match e with
    | .sym d t s => if d == isDC && t == tbl then a.modify s (· + 1) else a
    | _ => a) (Array.replicate 257 0)).toList

/-- bytes of the entropy-coded data of a scan given the tables -/
def emitEvents (evs : List Ev) (tab : Bool → Nat → Option CDerived) : Option (List Nat) := Id.run do
  let mut out : List Nat := []
  let mut cur : Array (List Bool) := #[]
  for e in evs do
    match e with
    | .sym d t s =>
      match (tab d t).bind (fun c => Huff.encode c s) with
      | none => return none
      | some bs => cur := cur.push bs
    | .bits v n => cur := cur.push (LL.natBits v n)
    | .rst n =>
      out := out ++ Bits.segmentBytes cur.toList.flatten ++ [0xFF, 0xD0 + n]
      cur := #[]
  return some (out ++ Bits.segmentBytes cur.toList.flatten)

/-- `jpeg_simple_progression`: (component indices, Ss, Se, Ah, Al) -/
def simpleProgression (nc : Nat) : List (List Nat × Nat × Nat × Nat × Nat) :=
  let all := List.range nc
  if nc == 3 then
    [(all, 0, 0, 0, 1), ([0], 1, 5, 0, 2), ([2], 1, 63, 0, 1), ([1], 1, 63, 0, 1), ([0], 6, 63, 0, 2),
     ([0], 1, 63, 2, 1), (all, 0, 0, 1, 0), ([2], 1, 63, 1, 0), ([1], 1, 63, 1, 0), ([0], 1, 63, 1, 0)]
  else
    [(all, 0, 0, 0, 1)] ++ all.map (fun c => ([c], 1, 5, 0, 2)) ++ all.map (fun c => ([c], 6, 63, 0, 2)) ++
    all.map (fun c => ([c], 1, 63, 2, 1)) ++ [(all, 0, 0, 1, 0)] ++ all.map (fun c => ([c], 1, 63, 1, 0))

/-- the whole progressive file libjpeg-turbo writes (jcmarker.c layout) -/
def encodeFile (w h : Nat) (comps : List (Nat × Nat)) (qs : List (List Nat)) (ri : Nat)
    (script : List (List Nat × Nat × Nat × Nat × Nat)) (coef : Nat → Nat → Nat → Nat → Int) : Option (List Nat) := Id.run do
  let nc := comps.length
  let cls := fun (i : Nat) => if nc == 1 then 0 else min i 1
  let ncls := if nc == 1 then 1 else 2
  let o : Opts := { q16 := false, joinTables := false, fill := false, driPos := 2, split := false, tblShift := 0, ri := ri }
  let f : Frame := ⟨0xC2, 8, h, w, (List.range nc).map (fun i => ⟨i + 1, (comps.getD i (1, 1)).1, (comps.getD i (1, 1)).2, cls i⟩)⟩
  let hmax := f.comps.foldl (fun a c => max a c.h) 1
  let vmax := f.comps.foldl (fun a c => max a c.v) 1
  let mut s : List Nat := [0xFF, 0xD8, 0xFF, 0xE0, 0, 16, 0x4A, 0x46, 0x49, 0x46, 0, 1, 1, 0, 0, 1, 0, 1, 0, 0]
  for k in [0:ncls] do s := s ++ marker o 0xDB (dqtPayload o k (qs.getD k []))
  s := s ++ marker o 0xC2 ([8] ++ be16 h ++ be16 w ++ [nc] ++ f.comps.flatMap (fun c => [c.id, c.h * 16 + c.v, c.tq]))
  let mut driSent := false
  for (cis, ss, se, ah, al) in script do
    let scs := cis.map (fun ci => (ci, cls ci, cls ci))
    let evs := scanEvents f hmax vmax coef scs ss se ah al ri
    -- tables for this scan (finish_pass_gather_phuff) and their DHT markers (write_scan_header)
    let isDC := ss == 0
    let mut tabs : List (Nat × Tbl) := []
    if !(isDC && ah != 0) then
      for ci in cis do
        let t := cls ci
        if !(tabs.any (·.1 == t)) then
          match Huff.genOptimalTable (countSyms evs isDC t) with
          | .clenOverflow => return none
          | .ok tb =>
            tabs := tabs ++ [(t, tb)]
            s := s ++ marker o 0xC4 (dhtPayload (if isDC then 0 else 1) t tb)
    if ri != 0 && !driSent then
      s := s ++ marker o 0xDD (be16 ri)
      driSent := true
    let hdr := [cis.length] ++ cis.flatMap (fun ci =>
        [ci + 1, (if ss == 0 && ah == 0 then cls ci else 0) * 16 + (if se != 0 then cls ci else 0)]) ++ [ss, se, ah * 16 + al]
    s := s ++ marker o 0xDA hdr
    let lookup := fun (d : Bool) (t : Nat) =>
      if d != isDC then none else (tabs.find? (·.1 == t)).bind (fun p => mkCDerived d false p.2)
    if ss != 0 then
      -- AC scan: the bits are `ProgAC.evBits` of the interval events (the function the round-trip theorems are about)
      let ci := cis.headD 0
      match lookup false (cls ci) with
      | none => return none
      | some c =>
        match acScanBytes c (acScanIntervals f hmax vmax coef ci ss se ah al ri) with
        | none => return none
        | some bytes => s := s ++ bytes
    else
      match emitEvents evs lookup with
      | none => return none
      | some bytes => s := s ++ bytes
  return some (s ++ [0xFF, 0xD9])

end LJT.ProgHuff
