/-! Marker copying of the lossless transformer: `jcopy_markers_setup` /
`jcopy_markers_execute` (src/transupp.c) on a *reused* source object, whose
`jpeg_save_markers` settings persist from one image to the next. -/
namespace LJT.CopyOpt

inductive Opt | none | comments | all | allExceptIcc | icc
deriving Repr, DecidableEq

def COM : Nat := 0xFE
def APP0 : Nat := 0xE0
def isAPPn (c : Nat) : Bool := decide (0xE0 ≤ c ∧ c ≤ 0xEF)

/-- which marker codes `jcopy_markers_setup option` asks the source object to save -/
def setupAdds (o : Opt) (code : Nat) : Bool :=
  (decide (o ≠ .none ∧ o ≠ .icc) && code == COM) ||
  (decide (o = .all ∨ o = .allExceptIcc) && isAPPn code && !(decide (o = .allExceptIcc) && code == APP0 + 2)) ||
  (decide (o = .icc) && code == APP0 + 2)

/-- save settings after one more setup: `jpeg_save_markers` is only ever called with a
non-zero limit here, so a code once saved stays saved on this source object -/
def setup (saved : Nat → Bool) (o : Opt) : Nat → Bool := fun c => saved c || setupAdds o c

def isJFIF (m : Nat × List Nat) : Bool := m.1 == APP0 && m.2.take 5 == [0x4A, 0x46, 0x49, 0x46, 0]
def isAdobe (m : Nat × List Nat) : Bool := m.1 == APP0 + 14 && m.2.take 5 == [0x41, 0x64, 0x6F, 0x62, 0x65]

/-- the filter coded in `jcopy_markers_execute` -/
def execKeeps (o : Opt) (writeJFIF writeAdobe : Bool) (m : Nat × List Nat) : Bool :=
  (match o with
   | .none => false
   | .comments => m.1 == COM
   | .all => true
   | .allExceptIcc => !(m.1 == APP0 + 2)
   | .icc => m.1 == APP0 + 2) &&
  !(writeJFIF && isJFIF m) && !(writeAdobe && isAdobe m)

/-- one transform on a source object with save settings `saved`: the marker list is what
the reader saved, the output is what execute lets through -/
def transform (saved : Nat → Bool) (o : Opt) (writeJFIF writeAdobe : Bool)
    (src : List (Nat × List Nat)) : List (Nat × List Nat) :=
  (src.filter (fun m => setup saved o m.1)).filter (execKeeps o writeJFIF writeAdobe)

/-- the documented meaning of each copy option (turbojpeg.h TJPARAM_SAVEMARKERS,
transupp.h): which source markers appear in the output -/
def documented (o : Opt) (m : Nat × List Nat) : Bool :=
  match o with
  | .none => false
  | .comments => m.1 == COM
  | .all => m.1 == COM || isAPPn m.1
  | .allExceptIcc => (m.1 == COM || isAPPn m.1) && !(m.1 == APP0 + 2)
  | .icc => m.1 == APP0 + 2

/-- save settings after a history of earlier transforms on the same object -/
def savedAfter (hist : List Opt) : Nat → Bool := hist.foldl setup (fun _ => false)

end LJT.CopyOpt
