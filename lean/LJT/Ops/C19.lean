import LJT.Ops.Util
import LJT.Model.Nbits
import LJT.Model.Huff
namespace LJT.Ops
open LJT.Huff

/-- parse `<b1..b16> <nvals> <vals...>` -/
def parseTbl (l : List String) : Option Tbl := do
  let ns ← nats? l
  if ns.length < 17 then none else
  let bits := 0 :: ns.take 16
  let nv := ns.getD 16 0
  let vals := (ns.drop 17).take nv
  some ⟨bits, vals⟩

def opC19 : List String → Option String
  | ["nbits", x] => do
    let x ← nat? x
    some s!"{nbitsTbl x} {nbitsTblSimd x} {nbitsClz 17 x}"
  | "genopt" :: rest => do
    let ns ← nats? rest
    -- pairs sym count
    let rec fill : List Nat → Array Nat → Array Nat
      | s :: c :: r, a => fill r (a.setIfInBounds s c)
      | _, a => a
    let freq := fill ns (Array.replicate 257 0)
    match genOptimalTable freq.toList with
    | .clenOverflow => some s!"err {Gen.JERR_HUFF_CLEN_OVERFLOW}"
    | .ok t => some s!"ok bits {joinNat (t.bits.drop 1)} vals {joinNat t.vals}"
  | "gencs" :: rest => do
    -- `codesize[]` after the merge loop (read from the real function through the LJT_VERIF hook)
    let ns ← nats? rest
    let rec fill2 : List Nat → Array Nat → Array Nat
      | s :: c :: r, a => fill2 r (a.setIfInBounds s c)
      | _, a => a
    let freq := fill2 ns (Array.replicate 257 0)
    let cs := genCs freq.toList
    if cs.any (· > 32) then some s!"err {Gen.JERR_HUFF_CLEN_OVERFLOW}" else some s!"cs {joinNat cs}"
  | "cderive" :: dc :: ll :: rest => do
    let t ← parseTbl rest
    match mkCDerived (dc = "1") (ll = "1") t with
    | none => some s!"err {Gen.JERR_BAD_HUFF_TABLE}"
    | some d => some s!"ok co {joinNat d.co} si {joinNat d.si}"
  | "dderive" :: dc :: ll :: rest => do
    let t ← parseTbl rest
    match mkDDerived (dc = "1") (ll = "1") t with
    | none => some s!"err {Gen.JERR_BAD_HUFF_TABLE}"
    | some d => some s!"ok maxcode {joinInt ((d.maxcode.drop 1).take 17)} valoffset {joinInt ((d.valoffset.drop 1).take 16)} lookup {joinNat d.lookup}"
  | "hrt" :: dc :: ll :: rest => do
    -- encode every coded symbol with the C-derived table, decode with the D-derived one
    let t ← parseTbl rest
    match mkCDerived (dc = "1") (ll = "1") t, mkDDerived (dc = "1") (ll = "1") t with
    | some c, some d =>
      let bad := (List.range 256).filter (fun s =>
        match encode c s with
        | none => false
        | some bs => decode d (bs ++ [true, false, true]) != some (s, false, [true, false, true]))
      some s!"ok bad {joinNat bad}"
    | _, _ => some s!"err {Gen.JERR_BAD_HUFF_TABLE}"
  | _ => none

end LJT.Ops
