/* C01: decoding arbitrary bytes is memory-safe, terminating and error-reporting */
#include "exec_common.h"
#include <malloc.h>

#define C01_RND(m) ((int)((rs = c03_mix(rs)) % (unsigned long long)(m)))
#define C01_P(pct) (C01_RND(100) < (pct))

/* mkjpg kind seed : a well-formed stream from the TurboJPEG compressor (lossless at every precision, lossy with
   restart markers, ICC profile, progressive, arithmetic) to seed the mutator */
static int c01_mkjpg(toks_t *t)
{
  int kind = (int)tl(t, 1); unsigned long long rs = (unsigned long long)tll(t, 2) + 77ULL * (unsigned long long)kind;
  int w = 1 + C01_RND(48), h = 1 + C01_RND(40), prec, pf = C01_P(30) ? TJPF_GRAY : (C01_P(80) ? TJPF_RGB : TJPF_CMYK), ps = tjPixelSize[pf], i;
  tjhandle hd = tj3Init(TJINIT_COMPRESS); unsigned char *jp = NULL; size_t jn = 0; int rc; void *img;
  int lossless = kind % 2;
  prec = lossless ? 2 + C01_RND(15) : (C01_P(70) ? 8 : 12);
  img = malloc((size_t)w * h * ps * 2 + 16);
  for (i = 0; i < w * h * ps; i++) {
    int v = (int)(c03_mix(rs + (unsigned long long)i) % (unsigned long long)(1 << prec));
    if (C01_P(50)) v = ((i / ps) % 7 < 3) ? (1 << prec) - 1 : 0;
    if (prec <= 8) ((unsigned char *)img)[i] = (unsigned char)v; else ((unsigned short *)img)[i] = (unsigned short)v;
  }
  tj3Set(hd, TJPARAM_PRECISION, prec);
  if (lossless) { tj3Set(hd, TJPARAM_LOSSLESS, 1); tj3Set(hd, TJPARAM_LOSSLESSPSV, 1 + C01_RND(7)); tj3Set(hd, TJPARAM_LOSSLESSPT, C01_RND(prec > 1 ? prec - 1 : 1)); }
  else {
    tj3Set(hd, TJPARAM_QUALITY, 1 + C01_RND(100));
    tj3Set(hd, TJPARAM_SUBSAMP, pf == TJPF_GRAY ? TJSAMP_GRAY : C01_RND(6) == 3 ? TJSAMP_444 : C01_RND(7));
    if (pf == TJPF_GRAY) tj3Set(hd, TJPARAM_SUBSAMP, TJSAMP_GRAY);
    tj3Set(hd, TJPARAM_PROGRESSIVE, C01_P(40)); tj3Set(hd, TJPARAM_ARITHMETIC, C01_P(25)); tj3Set(hd, TJPARAM_OPTIMIZE, C01_P(30) && prec == 8);
  }
  if (C01_P(40)) tj3Set(hd, TJPARAM_RESTARTROWS, 1 + C01_RND(3)); else if (C01_P(30)) tj3Set(hd, TJPARAM_RESTARTBLOCKS, 1 + C01_RND(9));
  if (prec <= 8) rc = tj3Compress8(hd, (unsigned char *)img, w, 0, h, pf, &jp, &jn);
  else if (prec <= 12) rc = tj3Compress12(hd, (short *)img, w, 0, h, pf, &jp, &jn);
  else rc = tj3Compress16(hd, (unsigned short *)img, w, 0, h, pf, &jp, &jn);
  if (rc < 0) printf("R skip err %s\n", tj3GetErrorStr(hd));
  else { printf("R skip "); puthex(jp, jn); printf("\n"); }
  tj3Free(jp); tj3Destroy(hd); free(img);
  return 1;
}

/* a decompression run through the TurboJPEG API; returns 0 success, 1 warning, -1 error; out/outsz = produced buffer */
static int c01_tj_run(const unsigned char *b, size_t n, int api, unsigned long long rs, unsigned char fill, unsigned char **out, size_t *outsz, char *desc, size_t dsz)
{
  tjhandle hd = tj3Init(api == 2 ? TJINIT_TRANSFORM : TJINIT_DECOMPRESS); int rc, w, h, prec, ss, cs, ret = -1;
  *out = NULL; *outsz = 0;
  tj3Set(hd, TJPARAM_MAXPIXELS, 1 << 20);
  tj3Set(hd, TJPARAM_SCANLIMIT, C01_P(80) ? 64 : 500);
  tj3Set(hd, TJPARAM_MAXMEMORY, 256);
  if (C01_P(20)) tj3Set(hd, TJPARAM_STOPONWARNING, 1);
  if (C01_P(40)) tj3Set(hd, TJPARAM_FASTUPSAMPLE, 1);
  if (C01_P(40)) tj3Set(hd, TJPARAM_FASTDCT, 1);
  if (C01_P(20)) tj3Set(hd, TJPARAM_BOTTOMUP, 1);
  rc = tj3DecompressHeader(hd, b, n);
  if (rc < 0 && tj3GetErrorCode(hd) == TJERR_FATAL) { snprintf(desc, dsz, "header: %s", tj3GetErrorStr(hd)); tj3Destroy(hd); return -1; }
  w = tj3Get(hd, TJPARAM_JPEGWIDTH); h = tj3Get(hd, TJPARAM_JPEGHEIGHT); prec = tj3Get(hd, TJPARAM_PRECISION); ss = tj3Get(hd, TJPARAM_SUBSAMP); cs = tj3Get(hd, TJPARAM_COLORSPACE);
  if (w < 1 || h < 1 || (long long)w * h > (1 << 20)) { snprintf(desc, dsz, "dims %dx%d", w, h); tj3Destroy(hd); return -1; }
  if (api == 2) {
    tjtransform xf; unsigned char *dst = NULL; size_t dn = 0;
    memset(&xf, 0, sizeof(xf)); xf.op = C01_RND(8); xf.options = (C01_P(30) ? TJXOPT_TRIM : 0) | (C01_P(15) ? TJXOPT_GRAY : 0) | (C01_P(15) ? TJXOPT_PROGRESSIVE : 0) | (C01_P(10) ? TJXOPT_ARITHMETIC : 0) | (C01_P(10) ? TJXOPT_OPTIMIZE : 0) | (C01_P(20) ? TJXOPT_COPYNONE : 0);
    if (C01_P(25) && ss >= 0 && ss < TJ_NUMSAMP) { xf.options |= TJXOPT_CROP; xf.r.x = tjMCUWidth[ss] * C01_RND(3); xf.r.y = tjMCUHeight[ss] * C01_RND(3); xf.r.w = C01_RND(w + 1); xf.r.h = C01_RND(h + 1); }
    rc = tj3Transform(hd, b, n, 1, &dst, &dn, &xf);
    ret = rc < 0 ? -1 : 0;
    snprintf(desc, dsz, "transform op%d rc%d %s", xf.op, rc, rc < 0 ? tj3GetErrorStr(hd) : "");
    if (rc == 0 && dst) { *out = (unsigned char *)malloc(dn + 1); memcpy(*out, dst, dn); *outsz = dn; }
    tj3Free(dst);
  } else if (api == 1 && prec == 8 && ss >= 0 && ss != TJSAMP_UNKNOWN) {
    int nsf, align = 1 << C01_RND(4); tjscalingfactor *sf = tj3GetScalingFactors(&nsf); tjscalingfactor f = sf[C01_RND(nsf)]; size_t sz; int sw, sh;
    if (tj3Get(hd, TJPARAM_LOSSLESS)) f.num = f.denom = 1;
    tj3SetScalingFactor(hd, f);
    sw = TJSCALED(w, f); sh = TJSCALED(h, f);
    sz = tj3YUVBufSize(sw, align, sh, ss);
    if (sz == 0 || sz > (64u << 20)) { tj3Destroy(hd); snprintf(desc, dsz, "yuv size"); return -1; }
    *out = (unsigned char *)malloc(sz); memset(*out, fill, sz); *outsz = sz;
    rc = tj3DecompressToYUV8(hd, b, n, *out, align);
    ret = rc < 0 ? (tj3GetErrorCode(hd) == TJERR_WARNING ? 1 : -1) : 0;
    if (ret == 0) {
      /* only the documented plane width x height of each plane is output; the alignment padding of each row is not */
      int np = ss == TJSAMP_GRAY ? 1 : 3, pi; size_t off = 0, o2 = 0; unsigned char *c = (unsigned char *)malloc(sz + 1);
      for (pi = 0; pi < np; pi++) {
        int pw = tj3YUVPlaneWidth(pi, sw, ss), ph = tj3YUVPlaneHeight(pi, sh, ss), st = (pw + align - 1) & ~(align - 1), y;
        for (y = 0; y < ph; y++) { memcpy(c + o2, *out + off + (size_t)y * st, (size_t)pw); o2 += (size_t)pw; }
        off += (size_t)st * ph;
      }
      free(*out); *out = c; *outsz = o2;
    }
    snprintf(desc, dsz, "toyuv %d/%d align%d rc%d", f.num, f.denom, align, rc);
  } else {
    int nsf, pf; tjscalingfactor *sf = tj3GetScalingFactors(&nsf); tjscalingfactor f = sf[C01_RND(nsf)]; int sw, sh; size_t pitch, sz, ssz = prec <= 8 ? 1 : 2;
    tjregion cr = { 0, 0, 0, 0 };
    pf = cs == TJCS_GRAY && C01_P(50) ? TJPF_GRAY : (cs == TJCS_CMYK || cs == TJCS_YCCK) ? TJPF_CMYK : C01_RND(TJ_NUMPF);
    if ((cs == TJCS_CMYK || cs == TJCS_YCCK) != (pf == TJPF_CMYK)) pf = (cs == TJCS_CMYK || cs == TJCS_YCCK) ? TJPF_CMYK : TJPF_RGB;
    if (tj3Get(hd, TJPARAM_LOSSLESS) || prec != 8) { if (C01_P(70) || tj3Get(hd, TJPARAM_LOSSLESS)) f.num = f.denom = 1; }
    tj3SetScalingFactor(hd, f);
    sw = TJSCALED(w, f); sh = TJSCALED(h, f);
    if (C01_P(25) && ss >= 0 && ss < TJ_NUMSAMP && prec == 8 && !tj3Get(hd, TJPARAM_LOSSLESS)) {
      int mw = TJSCALED(tjMCUWidth[ss], f);
      cr.x = mw * C01_RND(3); cr.y = C01_RND(sh + 1); cr.w = C01_RND(sw + 1); cr.h = C01_RND(sh + 1);
      if (tj3SetCroppingRegion(hd, cr) == 0) { if (cr.w == 0) cr.w = sw - cr.x; if (cr.h == 0) cr.h = sh - cr.y; if (cr.w > 0 && cr.h > 0) { sw = cr.w; sh = cr.h; } }
      else { cr.x = cr.y = cr.w = cr.h = 0; }
    }
    pitch = (size_t)sw * tjPixelSize[pf] + (size_t)C01_RND(5);
    sz = pitch * sh * ssz;
    if (sz == 0 || sz > (64u << 20)) { tj3Destroy(hd); snprintf(desc, dsz, "size"); return -1; }
    *out = (unsigned char *)malloc(sz); memset(*out, fill, sz); *outsz = (size_t)sw * tjPixelSize[pf] * ssz;  /* first row only is compared as "produced" together with the rest below */
    if (prec <= 8) rc = tj3Decompress8(hd, b, n, *out, (int)pitch, pf);
    else if (prec <= 12) rc = tj3Decompress12(hd, b, n, (short *)*out, (int)pitch, pf);
    else rc = tj3Decompress16(hd, b, n, (unsigned short *)*out, (int)pitch, pf);
    ret = rc < 0 ? (tj3GetErrorCode(hd) == TJERR_WARNING ? 1 : -1) : 0;
    /* compact the rows so that row padding is not compared */
    if (ret == 0) {
      size_t rowb = (size_t)sw * tjPixelSize[pf] * ssz; int y; unsigned char *c = (unsigned char *)malloc(rowb * sh + 1);
      for (y = 0; y < sh; y++) memcpy(c + (size_t)y * rowb, *out + (size_t)y * pitch * ssz, rowb);
      free(*out); *out = c; *outsz = rowb * sh;
      if (tjPixelSize[pf] == 4 && tjAlphaOffset[pf] < 0 && pf != TJPF_CMYK) { size_t i; int xo = pf == TJPF_RGBX || pf == TJPF_BGRX ? 3 : 0; for (i = 0; i < (size_t)sw * sh; i++) { if (ssz == 1) c[i * 4 + xo] = 0; else ((unsigned short *)c)[i * 4 + xo] = 0; } }
    }
    snprintf(desc, dsz, "decompress p%d pf%d %d/%d crop%d,%d,%d,%d rc%d", prec, pf, f.num, f.denom, cr.x, cr.y, cr.w, cr.h, rc);
  }
  tj3Destroy(hd);
  return ret;
}

/* overwrite the dead stack frames left by earlier calls */
static __attribute__((noinline)) int c01_clobber(int depth, unsigned char v)
{
  volatile unsigned char junk[1024]; int i, s = 0;
  for (i = 0; i < 1024; i++) junk[i] = v;
  for (i = 0; i < 1024; i += 97) s += junk[i];
  return depth > 0 ? s + c01_clobber(depth - 1, v) : s;
}

/* transform on a handle that has already been used for a decompression with a scan limit, after the limit was switched off:
   must behave like a transform on a fresh handle */
static int c01_reuse_run(const unsigned char *b, size_t n, unsigned long long rs, int fresh, unsigned char **out, size_t *outsz, char *desc, size_t dsz)
{
  tjhandle hd = tj3Init(TJINIT_TRANSFORM); tjtransform xf; unsigned char *dst = NULL; size_t dn = 0; int rc, op = C01_RND(8);
  *out = NULL; *outsz = 0;
  tj3Set(hd, TJPARAM_MAXPIXELS, 1 << 20);
  /* both handles read the header (which, as documented, sets the parameters that describe the source); only the reused
     one also decompresses under a scan limit and then switches the limit off */
  {
    int w, h, hdr = tj3DecompressHeader(hd, b, n); unsigned char *tmp;
    if (!fresh) {
      tj3Set(hd, TJPARAM_SCANLIMIT, 64);
      if (hdr == 0) {
        w = tj3Get(hd, TJPARAM_JPEGWIDTH); h = tj3Get(hd, TJPARAM_JPEGHEIGHT);
        if (w > 0 && h > 0 && (long long)w * h <= (1 << 20) && tj3Get(hd, TJPARAM_PRECISION) == 8) {
          tmp = (unsigned char *)malloc((size_t)w * h * 4 + 16);
          (void)tj3Decompress8(hd, b, n, tmp, 0, TJPF_RGBX);
          free(tmp);
        }
      }
      tj3Set(hd, TJPARAM_SCANLIMIT, 0);
      (void)c01_clobber(24, (unsigned char)(0x11 + (rs & 0x7F)));
    }
  }
  memset(&xf, 0, sizeof(xf)); xf.op = op; xf.options = TJXOPT_TRIM;
  rc = tj3Transform(hd, b, n, 1, &dst, &dn, &xf);
  snprintf(desc, dsz, "reuse op%d rc%d %s", op, rc, rc < 0 ? tj3GetErrorStr(hd) : "");
  if (rc == 0 && dst) { *out = (unsigned char *)malloc(dn + 1); memcpy(*out, dst, dn); *outsz = dn; }
  tj3Free(dst); tj3Destroy(hd);
  return rc < 0 ? -1 : 0;
}

typedef struct { struct jpeg_progress_mgr pub; int maxscans; } c01_prog;
static void c01_progress(j_common_ptr c)
{
  c01_prog *p = (c01_prog *)c->progress;
  if (c->is_decompressor && ((j_decompress_ptr)c)->input_scan_number > p->maxscans) ERREXIT(c, JERR_BAD_PROGRESSION);  /* any error will do */
}

/* the libjpeg API with many options; returns 0 ok (out = all rows), -1 error, 1 warnings */
static int c01_lj_run(const unsigned char *b, size_t n, unsigned long long rs, unsigned char fill, unsigned char **out, size_t *outsz, char *desc, size_t dsz)
{
  struct jpeg_decompress_struct d; my_err_t e; c01_prog pg; unsigned char *rows = NULL; size_t rowb = 0, total = 0; int coefs = C01_P(15);
  *out = NULL; *outsz = 0;
  d.err = my_err_init(&e);
  jpeg_create_decompress(&d);
  if (setjmp(e.jb)) { snprintf(desc, dsz, "libjpeg error %d", e.code); jpeg_destroy_decompress(&d); free(rows); return -1; }
  pg.pub.progress_monitor = c01_progress; pg.maxscans = 64; d.progress = &pg.pub;
  d.mem->max_memory_to_use = 256L << 20;
  jpeg_mem_src(&d, b, n);
  if (C01_P(30)) { jpeg_save_markers(&d, JPEG_COM, 0xFFFF); jpeg_save_markers(&d, JPEG_APP0 + 2, 0xFFFF); }
  jpeg_read_header(&d, TRUE);
  if ((unsigned long long)d.image_width * d.image_height > (1ULL << 20)) { snprintf(desc, dsz, "too big"); jpeg_destroy_decompress(&d); return -1; }
  if (coefs) { (void)jpeg_read_coefficients(&d); jpeg_finish_decompress(&d); snprintf(desc, dsz, "coefs w%d", e.nwarn); jpeg_destroy_decompress(&d); return e.nwarn ? 1 : 0; }
  if (d.data_precision == 8 && !d.master->lossless) {
    static const int nums[] = { 1, 2, 3, 4, 5, 6, 7, 8, 9, 10, 11, 12, 13, 14, 15, 16 };
    d.scale_num = nums[C01_RND(16)]; d.scale_denom = 8;
    d.dct_method = (J_DCT_METHOD)C01_RND(3);
    d.do_fancy_upsampling = C01_RND(2); d.do_block_smoothing = C01_RND(2);
    if (C01_P(25)) { d.quantize_colors = TRUE; d.two_pass_quantize = C01_RND(2); d.dither_mode = (J_DITHER_MODE)C01_RND(3); d.desired_number_of_colors = 2 + C01_RND(255); }
    if (C01_P(30)) d.out_color_space = (J_COLOR_SPACE)(C01_P(50) ? JCS_RGB565 : JCS_EXT_RGB + C01_RND(10));
    if (C01_P(15)) d.out_color_space = JCS_GRAYSCALE;
  }
  d.buffered_image = C01_P(20);
  jpeg_start_decompress(&d);
  if (d.data_precision != 8) { jpeg_abort_decompress(&d); jpeg_destroy_decompress(&d); snprintf(desc, dsz, "non-8-bit via libjpeg skipped"); return -1; }
#define C01_ROWB(d) ((size_t)(d).output_width * (((d).out_color_space == JCS_RGB565 && !(d).quantize_colors) ? 2 : (d).output_components))
  rowb = C01_ROWB(d);   /* the documented row size: RGB565 pixels are 2 bytes although output_components says 3 */
  {
    JDIMENSION xo = 0, cw = d.output_width; int docrop = C01_P(25) && !d.buffered_image && !d.quantize_colors, doskip = C01_P(30) && !d.buffered_image && !d.quantize_colors;
    if (docrop) { xo = (JDIMENSION)C01_RND(d.output_width); cw = 1 + (JDIMENSION)C01_RND(d.output_width - xo); jpeg_crop_scanline(&d, &xo, &cw); rowb = C01_ROWB(d); }
    rows = (unsigned char *)malloc(rowb * d.output_height + 16); memset(rows, fill, rowb * d.output_height + 16);
    if (d.buffered_image) {
      while (!jpeg_input_complete(&d)) {
        int rc = jpeg_consume_input(&d);
        if (rc == JPEG_REACHED_EOI) break;
        if (C01_P(10)) { jpeg_start_output(&d, d.input_scan_number); total = 0; while (d.output_scanline < d.output_height) { unsigned char *one = (unsigned char *)malloc(rowb ? rowb : 1); JSAMPROW rp = one; JDIMENSION at = d.output_scanline; memset(one, fill, rowb); if (jpeg_read_scanlines(&d, &rp, 1) == 1) memcpy(rows + (size_t)at * rowb, one, rowb); free(one); } jpeg_finish_output(&d); }
      }
      jpeg_start_output(&d, d.input_scan_number);
      while (d.output_scanline < d.output_height) { unsigned char *one = (unsigned char *)malloc(rowb ? rowb : 1); JSAMPROW rp = one; JDIMENSION at = d.output_scanline; memset(one, fill, rowb); if (jpeg_read_scanlines(&d, &rp, 1) == 1) memcpy(rows + (size_t)at * rowb, one, rowb); free(one); }
      jpeg_finish_output(&d);
      total = rowb * d.output_height;
    } else {
      size_t wr = 0;
      while (d.output_scanline < d.output_height) {
        if (doskip && C01_P(20)) { jpeg_skip_scanlines(&d, (JDIMENSION)(1 + C01_RND(20))); continue; }
        { unsigned char *one = (unsigned char *)malloc(rowb ? rowb : 1); JSAMPROW rp = one; memset(one, fill, rowb); if (jpeg_read_scanlines(&d, &rp, 1) == 1) { memcpy(rows + wr, one, rowb); wr += rowb; } free(one); }
      }
      total = wr;
    }
  }
  jpeg_finish_decompress(&d);
  snprintf(desc, dsz, "libjpeg %ux%u oc%d cs%d scale%d/8 w%d", d.output_width, d.output_height, d.output_components, (int)d.out_color_space, d.scale_num, e.nwarn);
  jpeg_destroy_decompress(&d);
  *out = rows; *outsz = total;
  return e.nwarn ? 1 : 0;
}

/* dfz api optseed hex : decode arbitrary bytes twice with different buffer prefill; anything that differs between the
   two results in the part reported as produced was never written */
static int c01_dfz(toks_t *t)
{
  int api = (int)tl(t, 1); unsigned long long os = (unsigned long long)tll(t, 2); size_t n; unsigned char *b = hex2bytes(t->tok[3], &n);
  unsigned char *o1 = NULL, *o2 = NULL; size_t s1 = 0, s2 = 0; char d1[200] = "", d2[200] = ""; int r1, r2;
  /* the two runs also differ in what freshly allocated heap memory contains (glibc builds; the ASan allocator fills with a constant):
     output that comes from never-written working memory of the library then differs as well */
  mallopt(M_PERTURB, 0x11);
  if (api == 4) r1 = c01_reuse_run(b, n, os, 1, &o1, &s1, d1, sizeof(d1));
  else if (api <= 2) r1 = c01_tj_run(b, n, api, os, 0x5A, &o1, &s1, d1, sizeof(d1));
  else r1 = c01_lj_run(b, n, os, 0x5A, &o1, &s1, d1, sizeof(d1));
  mallopt(M_PERTURB, 0xE2);
  if (api == 4) r2 = c01_reuse_run(b, n, os, 0, &o2, &s2, d2, sizeof(d2));
  else if (api <= 2) r2 = c01_tj_run(b, n, api, os, 0xC3, &o2, &s2, d2, sizeof(d2));
  else r2 = c01_lj_run(b, n, os, 0xC3, &o2, &s2, d2, sizeof(d2));
  mallopt(M_PERTURB, 0);
  printf("R skip %d %s\n", r1, d1);
  if (r1 != r2) printf("O fail dfz: two identical calls ended differently (%d / %d): %s | %s\n", r1, r2, d1, d2);
  else if (r1 == 0 && (s1 != s2 || (s1 && memcmp(o1, o2, s1)))) {
    size_t k = 0; while (k < s1 && k < s2 && o1[k] == o2[k]) k++;
    printf("O fail dfz: output reported as produced depends on what the buffer or fresh heap memory held before the call (byte %zu of %zu: 0x%02x / 0x%02x): %s\n", k, s1, o1 ? o1[k] : 0, o2 ? o2[k] : 0, d1);
  } else printf("O ok\n");
  free(o1); free(o2); free(b);
  return 1;
}

static int dispatch_c01(toks_t *t)
{
  if (!strcmp(t->tok[0], "mkjpg") && t->n >= 3) return c01_mkjpg(t);
  if (!strcmp(t->tok[0], "dfz") && t->n >= 4) return c01_dfz(t);
  return 0;
}
