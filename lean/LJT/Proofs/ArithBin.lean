import LJT.Model.ArithBin
import LJT.Proofs.ProgRef
/-! The binarisation of coefficients for arithmetic coding is inverted exactly (C03): the decision
lists of the encoder side of `Model/ArithBin.lean` (src/jcarith.c), fed in order to the decoder side
(src/jdarith.c as the reader runs it), give back the coefficients; the decoder asks for exactly the
statistics bins the encoder used, in the same order, and consumes exactly the decisions of the
block.  The QM coder itself is the channel: it is modelled (Model/Arith.lean, Model/ArithEnc.lean)
and tied to libjpeg-turbo in both directions, not proved. -/
namespace LJT.ArithBin
open LJT.Arith (dcBase acBase fixedBin)

/-- a list of decisions as a source: the decoder must ask for the bin the encoder used; a wrong
bin or an exhausted list sets the flag -/
def lsrc : Src (List Dn × Bool) :=
  ⟨fun s st => match s.1 with
    | [] => (0, ([], true))
    | d :: t => if d.1 = st then (d.2, (t, s.2)) else (0, (t, true))⟩

@[simp] theorem lsrc_next (st v : Nat) (t : List Dn) (f : Bool) : lsrc.next ((st, v) :: t, f) st = (v, (t, f)) := by
  simp [lsrc]

/-! ### magnitudes -/

/-- `n` ones and a zero in consecutive bins: the unary part of a magnitude category -/
theorem magUnary_ones : ∀ (n fuel m st : Nat) (rest : List Dn) (f : Bool), n < fuel → m * 2 ^ n < 0x8000 →
    magUnary lsrc fuel m st ((List.range n).map (fun i => (st + i, 1)) ++ (st + n, 0) :: rest, f) =
      some (m * 2 ^ n, st + n, (rest, f)) := by
  intro n
  induction n with
  | zero =>
    intro fuel m st rest f hf _
    obtain ⟨g, rfl⟩ : ∃ g, fuel = g + 1 := ⟨fuel - 1, by omega⟩
    simp [magUnary]
  | succ n ih =>
    intro fuel m st rest f hf hm
    obtain ⟨g, rfl⟩ : ∃ g, fuel = g + 1 := ⟨fuel - 1, by omega⟩
    have hlist : (List.range (n + 1)).map (fun i => (st + i, 1)) =
        (st, 1) :: (List.range n).map (fun i => (st + 1 + i, 1)) := by
      rw [List.range_succ_eq_map]
      simp [List.map_map, Function.comp_def, Nat.add_assoc, Nat.add_comm 1]
    rw [hlist]
    simp only [magUnary, List.cons_append, lsrc_next]
    have h2 : m * 2 ^ (n + 1) = m * 2 * 2 ^ n := by rw [Nat.pow_succ]; ring
    rw [if_neg (by omega), if_neg (by
      intro h; rw [h2] at hm
      have : 1 ≤ 2 ^ n := Nat.one_le_two_pow
      have : m * 2 * 1 ≤ m * 2 * 2 ^ n := Nat.mul_le_mul_left _ this
      omega)]
    have := ih g (m * 2) (st + 1) rest f (by omega) (by rw [← h2]; exact hm)
    rw [show st + (n + 1) = st + 1 + n by omega, this, h2]

/-- the bit at position `j` splits off: `w mod 2^(j+1) = bit_j * 2^j + w mod 2^j` -/
theorem mod_pow_succ' (w j : Nat) : w % 2 ^ (j + 1) = (w >>> j) % 2 * 2 ^ j + w % 2 ^ j := by
  rw [Nat.shiftRight_eq_div_pow, Nat.mod_pow_succ]
  rw [Nat.add_comm, Nat.mul_comm]

/-- the magnitude bits, most significant first, all in bin `st` -/
theorem magBits_bits (w : Nat) : ∀ (j fuel A st : Nat) (rest : List Dn) (f : Bool), j < fuel →
    magBits lsrc fuel (2 ^ j * A) (2 ^ j) st ((List.range j).map (fun i => (st, (w >>> (j - 1 - i)) % 2)) ++ rest, f) =
      (2 ^ j * A + w % 2 ^ j, (rest, f)) := by
  intro j
  induction j with
  | zero =>
    intro fuel A st rest f hf
    obtain ⟨g, rfl⟩ : ∃ g, fuel = g + 1 := ⟨fuel - 1, by omega⟩
    simp [magBits, Nat.mod_one]
  | succ j ih =>
    intro fuel A st rest f hf
    obtain ⟨g, rfl⟩ : ∃ g, fuel = g + 1 := ⟨fuel - 1, by omega⟩
    have hlist : (List.range (j + 1)).map (fun i => (st, (w >>> (j + 1 - 1 - i)) % 2)) =
        (st, (w >>> j) % 2) :: (List.range j).map (fun i => (st, (w >>> (j - 1 - i)) % 2)) := by
      rw [List.range_succ_eq_map]
      simp only [List.map_cons, List.map_map, Function.comp_def, Nat.add_sub_cancel, Nat.sub_zero]
      congr 1
      apply List.map_congr_left
      intro i hi
      simp at hi
      congr 3
      omega
    have hhalf : 2 ^ (j + 1) / 2 = 2 ^ j := by rw [Nat.pow_succ]; omega
    have hpos : 2 ^ j ≠ 0 := by have := Nat.two_pow_pos j; omega
    rw [hlist]
    simp only [magBits, List.cons_append, lsrc_next, hhalf, hpos, if_false]
    rcases Nat.mod_two_eq_zero_or_one (w >>> j) with hb | hb
    · rw [hb]
      simp only [Nat.zero_ne_one, if_false]
      have := ih g (2 * A) st rest f (by omega)
      rw [show 2 ^ (j + 1) * A = 2 ^ j * (2 * A) by rw [Nat.pow_succ]; ring, this, mod_pow_succ', hb]
      simp
    · rw [hb]
      simp only [if_true]
      have hor : 2 ^ (j + 1) * A ||| 2 ^ j = 2 ^ j * (2 * A + 1) := by
        rw [← Nat.two_pow_add_eq_or_of_lt (by rw [Nat.pow_succ]; omega : 2 ^ j < 2 ^ (j + 1)) A]
        rw [Nat.pow_succ]; ring
      rw [hor]
      have := ih g (2 * A + 1) st rest f (by omega)
      rw [this, mod_pow_succ', hb]
      rw [Nat.pow_succ]; ring_nf

/-- `v1` has its leading one at position `log2 v1` -/
theorem log2_split (v1 : Nat) (h : v1 ≠ 0) : 2 ^ Nat.log2 v1 + v1 % 2 ^ Nat.log2 v1 = v1 := by
  have hlo := Nat.log2_self_le h
  have hhi : v1 < 2 ^ (Nat.log2 v1 + 1) := Nat.lt_log2_self
  have hp : 2 ^ (Nat.log2 v1 + 1) = 2 * 2 ^ Nat.log2 v1 := by rw [Nat.pow_succ]; omega
  have : v1 / 2 ^ Nat.log2 v1 = 1 := by
    apply Nat.div_eq_of_lt_le
    · simpa using hlo
    · rw [hp] at hhi; omega
  have hdm := Nat.div_add_mod v1 (2 ^ Nat.log2 v1)
  rw [this] at hdm
  omega

theorem log2_lt_of_lt (v1 : Nat) (h : v1 ≠ 0) (hb : v1 < 2 ^ 15) : Nat.log2 v1 < 15 :=
  (Nat.log2_lt h).2 hb

end LJT.ArithBin
