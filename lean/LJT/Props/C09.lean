import LJT.Proofs.Suspend
import LJT.Proofs.SeqStable
/-! # C09 - decoded and encoded data do not depend on I/O chunking or scheduling

Theorems about the suspension protocol (Model/Suspend.lean).  The generic theorem is stated
for any unit of work that obeys libjpeg's suspension contract ("either finish, or return
suspended with the saved state untouched; never look beyond what is needed"); it is proved for
the marker-segment reader (bytes) and for the sequential Huffman MCU decoder (bits; the model
`SeqHuff.decodeBlocks`, the same functions the C03 round trip and the T.81 reader are built
from); that the remaining real units (progressive and arithmetic `decode_mcu_*`,
`encode_mcu_huff`) and the bit buffer in front of the MCU decoder obey it is what the harness
checks on the real code under every split position. -/
namespace LJT.Props.C09
open LJT.Suspend

/-- **Chunking is invisible to a conforming consumer**: two deliveries of the same byte
string, cut into chunks in any two ways (including 1-byte chunks and every single split),
drive any stable unit of work to the same final state with the same unread bytes -/
theorem chunking_independent {σ : Type} (step : Step σ) (hst : Stable step) (s : σ)
    (cs1 cs2 : List (List Nat)) (h : cs1.flatten = cs2.flatten) (a1 a2 : σ) (b1 b2 : List Nat)
    (h1 : ChunkRun step s [] cs1 a1 b1) (h2 : ChunkRun step s [] cs2 a2 b2) : a1 = a2 ∧ b1 = b2 :=
  LJT.Suspend.chunking_independent step hst s cs1 cs2 h a1 a2 b1 b2 h1 h2

/-- every chunked execution is an execution on the bytes delivered at once -/
theorem chunked_run_is_whole_run {σ : Type} (step : Step σ) (hst : Stable step) (s : σ) (buf : List Nat)
    (cs : List (List Nat)) (sf : σ) (lf : List Nat) (h : ChunkRun step s buf cs sf lf) :
    ChunkRun step s (buf ++ cs.flatten) [] sf lf := chunks_to_whole step hst s buf cs sf lf h

/-- **The application-side source manager loses and invents nothing**: appending a chunk
behind the unread bytes leaves the byte string still to be seen unchanged, a successful read
returns its prefix, and `skip_input_data` - also across chunk boundaries - drops exactly `n` bytes -/
theorem source_manager_bookkeeping (s : Src) :
    (∀ s', s.refill = some s' → s'.remaining = s.remaining) ∧
    (∀ n bs s', s.read n = some (bs, s') → s.remaining = bs ++ s'.remaining ∧ bs.length = n) ∧
    (∀ n, s.skip = 0 → (s.skipData n).remaining = s.remaining.drop n) :=
  ⟨fun s' h => refill_remaining s s' h, fun n bs s' h => read_remaining n s s' bs h, fun n h => skip_remaining n s h⟩

/-- non-vacuity: the marker-segment reader is a stable unit of work, and a run exists -/
theorem marker_reader_is_stable : Stable segStep := segStep_stable
example : ChunkRun segStep 0 [] [[0xFF, 0xFE, 0], [3, 7], [0xFF]] 1 [0xFF] := by
  apply ChunkRun.more _ _ _ _ _ _ (by decide)
  apply ChunkRun.more _ _ _ _ _ _ (by decide)
  apply ChunkRun.adv _ _ _ 1 5 _ _ (by decide)
  apply ChunkRun.more _ _ _ _ _ _ (by decide)
  exact ChunkRun.done _ _ (by decide)

/-- **The sequential Huffman MCU decoder is a conforming unit of work**: for every pair of tables per component and
every MCU layout, if it decodes an MCU from the bits it has, it decodes the same MCU, leaves the same predictors and
consumes the same number of bits when any further bits follow - it never looks beyond what it needs. -/
theorem mcu_decoder_is_stable (tabs : Nat → Option (LJT.Huff.DDerived × LJT.Huff.DDerived)) (slots : List Nat) :
    Stable (LJT.SeqHuff.mcuStep tabs slots) := LJT.SeqHuff.mcuStep_stable tabs slots

/-- **Decoded MCUs do not depend on how the entropy-coded bits were delivered**: two deliveries of the same bit string,
cut anywhere, leave the same predictors, the same list of decoded MCUs and the same unread bits. -/
theorem decoded_mcus_independent_of_chunking (tabs : Nat → Option (LJT.Huff.DDerived × LJT.Huff.DDerived)) (slots : List Nat)
    (s : Array Int × List (List LJT.SeqHuff.Blk)) (cs1 cs2 : List (List Bool)) (h : cs1.flatten = cs2.flatten)
    (a1 a2 : Array Int × List (List LJT.SeqHuff.Blk)) (b1 b2 : List Bool)
    (h1 : ChunkRun (LJT.SeqHuff.mcuStep tabs slots) s [] cs1 a1 b1)
    (h2 : ChunkRun (LJT.SeqHuff.mcuStep tabs slots) s [] cs2 a2 b2) : a1 = a2 ∧ b1 = b2 :=
  LJT.Suspend.chunking_independent _ (LJT.SeqHuff.mcuStep_stable tabs slots) s cs1 cs2 h a1 a2 b1 b2 h1 h2

/-- the same for the lossless MCU decoder (one Huffman-coded difference per component) -/
theorem lossless_mcu_decoder_is_stable (dds : List LJT.Huff.DDerived) (tblOf : List Nat) (nc : Nat) :
    Stable (LJT.SeqHuff.llMcuStep dds tblOf nc) := LJT.SeqHuff.llMcuStep_stable dds tblOf nc

end LJT.Props.C09
