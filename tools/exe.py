#!/usr/bin/env python3
"""tools/exe.py <variant>: path of the real-code executor for the current tree"""
import sys, os
sys.path.insert(0, os.path.dirname(os.path.dirname(os.path.abspath(__file__))))
from vlib import common as C
v = sys.argv[1] if len(sys.argv) > 1 else "san"
th, vd = C.build_variants([v])
print(C.compile_harness(th, v, vd[v], [os.path.join(C.VERIF, "harness/exec_real.c")], "exec_real"))
