"""C02 - lossless mode reproduces every sample exactly."""
ID = "C02"
VARIANTS = ["san", "simd"]
RULE = ("llenc: images (noise, flat, alternating 0/max, gradient, random extremes; width/height from 1) x precision 2..16 x "
        "PSV 1..7 x Pt x 1..4 components (RGB-style single table and YCbCr-style two tables) x restart rows; the Lean model must "
        "emit byte-identical DHT tables and entropy-coded data, the model's decoder llDecode run on those bytes must return the samples "
        "the real decompressor returns, and the real decoder (libjpeg and TurboJPEG) must return (s >> Pt) << Pt; llsusp: the same streams delivered to the decompressor in pieces; lltj: TurboJPEG API with every packed-pixel layout, row order and pitch; class = op + precision band + outcome")
TRUSTED = ["Model.Lossless / Model.LosslessDec / Model.Bits / Model.Huff are hand models of jclossls.c, jdlossls.c, jcdiffct.c, jddiffct.c, jclhuff.c, jdlhuff.c"]
ASSUMPTIONS = ["all sampling factors are 1 in lossless mode (forced by jcmaster.c); the byte-level model covers the single interleaved scan (default for <= 4 components); "
               "other scan layouts (one scan per component, partial interleaving) are exercised on the real code by llscan with the exact-reconstruction oracle"]


def classify(op, R):
    p = op.split(" ")
    if p[0] == "llenc":
        P = int(p[1])
        return "llenc:P%s:psv%s:%s" % ("<=8" if P <= 8 else "<=12" if P <= 12 else "<=16", p[3], "ok" if R.startswith("dht") else R.split(" ")[0])
    if p[0] == "llsusp":
        return "llsusp:P%s:k%s" % ("<=8" if int(p[1]) <= 8 else "<=12" if int(p[1]) <= 12 else "<=16", p[11])
    if p[0] == "llscan":
        return "llscan:nc%s:l%s:%s" % (p[5], p[11], R.split(" ")[0])
    if p[0] == "lltj":
        return "lltj:pf%s:%s" % (p[5], R.split(" ")[0])
    return p[0]


def gen_ops(rng, tier):
    ops = []
    big = tier == "thorough"
    for i in range(2500 if big else 330):
        P = rng.choice([2, 3, 7, 8, 8, 9, 12, 12, 13, 15, 16, 16]) if rng.random() < .8 else rng.randint(2, 16)
        Pt = rng.choice([0, 0, 0, 1, P - 1]) if rng.random() < .8 else rng.randint(0, P - 1)
        psv = rng.randint(1, 7)
        nc = rng.choice([1, 3, 3, 4, 2])
        w = rng.choice([1, 2, 3, 5, 8, 17]) if not big or rng.random() < .8 else rng.randint(1, 200)
        h = rng.choice([1, 2, 3, 5, 8, 13])
        R = rng.choice([0, 0, 1, 2, 3, h, h + 1])
        kind = rng.choice([0, 0, 0, 1, 2, 3, 4])
        cs = "ycc" if nc == 3 and rng.random() < .4 else "rgb"
        ops.append("llenc %d %d %d %d %d %d %d %d %d %s" % (P, Pt, psv, R, nc, w, h, kind, rng.randrange(1 << 20), cs))
    # scan layouts other than one interleaved scan (real code, exact-reconstruction oracle through libjpeg and TurboJPEG)
    for i in range(600 if big else 90):
        P = rng.choice([2, 8, 8, 12, 16, rng.randint(2, 16)])
        Pt = rng.choice([0, 0, 1, P - 1])
        nc = rng.choice([2, 3, 3, 4])
        h = rng.choice([1, 2, 3, 5, 8, 13])
        ops.append("llscan %d %d %d %d %d %d %d %d %d %s %d" % (P, Pt, rng.randint(1, 7), rng.choice([0, 0, 1, 2, h]), nc, rng.choice([1, 2, 3, 5, 8, 17, 40]), h,
                                                                rng.choice([0, 0, 1, 2, 3, 4]), rng.randrange(1 << 20), "ycc" if nc == 3 and rng.random() < .3 else "rgb", rng.choice([1, 1, 2, 3])))
    # the same streams handed to the decompressor in pieces (suspending source of the C09 executor): still exact
    for i in range(300 if big else 60):
        P = rng.choice([8, 12, 16, rng.randint(2, 16)]); Pt = rng.choice([0, 0, rng.randrange(P)])
        nc = rng.choice([1, 3, 4])
        ops.append("llsusp %d %d %d %d %d %d %d %d %d %s %d %d %d" % (P, Pt, rng.randint(1, 7), rng.choice([0, 0, 1, 2]), nc, rng.choice([2, 7, 17, 60]), rng.choice([1, 3, 9]),
                                                                  rng.choice([0, 0, 2, 4]), rng.randrange(1 << 20), "rgb", rng.choice([1, 2, 2, 3]), rng.randrange(1 << 30), 0))
    # boundary: 16-bit differences of exactly +-32768, width 1, height 1, 1024-wide rows in thorough
    for psv in range(1, 8):
        ops.append("llenc 16 0 %d 0 1 6 4 2 1 rgb" % psv)
        ops.append("llenc 16 0 %d 2 3 1 7 4 %d rgb" % (psv, psv))
        ops.append("llenc 16 0 %d 0 3 7 1 4 %d ycc" % (psv, psv))
    if big:
        ops.append("llenc 16 0 4 0 3 1024 3 0 5 rgb")
        ops.append("llenc 12 0 7 1 1 1024 2 4 5 rgb")
    for i in range(1200 if big else 200):
        P = rng.choice([2, 8, 8, 12, 16, 5, 10, 15])
        Pt = rng.choice([0, 0, 1, P - 1])
        pf = rng.choice([0, 1, 2, 3, 4, 5, 6, 7, 8, 9, 10, 11])
        ops.append("lltj %d %d %d %d %d %d %d %d %d %d %d" % (
            P, Pt, rng.randint(1, 7), rng.choice([0, 0, 1, 2]), pf, rng.choice([1, 2, 5, 9, 16]), rng.choice([1, 2, 5, 8]),
            rng.choice([0, 0, 2, 3, 4]), rng.randrange(1 << 20), rng.randint(0, 1), rng.choice([0, 0, 1, 3, 8])))
    return ops


def search(ctx, failing_ops):
    from .. import common as C
    import random
    rng = random.Random("search/%s" % ctx["seed"])
    ops = list(failing_ops) + gen_ops(rng, "quick")
    found = []
    for v, exe in ctx["exes"].items():
        res, _ = C.run_exec(exe, ops)
        for op, (R, O) in zip(ops, res):
            if O and O.startswith("fail"):
                found.append((v, op, R, O))
    return found


MANIFEST = {
    "text": ("Kernel-checked Lean theorems over a model of the lossless codec (point transform, seven predictors with first-row/"
             "first-column rules, mod-2^16 reconstruction, restart-row bookkeeping of compressor and decompressor, difference "
             "category coding incl. the 32768 case, Huffman coding via the C19 theorems, bit packing with byte stuffing and padding); "
             "the main theorem lossless_roundtrip covers the whole interleaved scan from samples to bytes and back (restart intervals, "
             "MCU interleaving and regrouping included) for every image and parameter set. The model is tied to the real compressor by "
             "byte-identical DHT segments and entropy-coded data for every generated image and to the real decompressor by identical "
             "decoded samples for the same bytes, and the real decoder is checked against (s >> Pt) << Pt through both APIs, every pixel layout, row order and pitch."),
    "design_ref": "DESIGN.md 6.2",
    "note": ("Trusted: Lean kernel; axioms propext, Quot.sound, Classical.choice; the hand model (tied by byte-exact correspondence); "
             "layout/pitch/row-order independence rests on C10 + the lltj oracle; multi-scan lossless (more than 4 components or "
             "custom scan scripts) is exercised by the oracle only."),
    "technique": "Lean 4 proof (induction over rows/columns/items, refinement of restart state machines) + byte-exact model/code correspondence",
}
