import LJT.Ops.Util
import LJT.Model.PNM
namespace LJT.Ops
open LJT.PNM

def c18fnv (h : Nat) (v : Int) : Nat :=
  let u := (v % 65536).toNat
  let h := ((h ^^^ (u % 256)) * 1099511628211) % 18446744073709551616
  ((h ^^^ (u / 256)) * 1099511628211) % 18446744073709551616

def opC18 : List String → Option String
  -- pnmload bits prec pf maxPixels bottomUp hexfile
  | ["pnmload", bits, prec, pf, maxPixels, bu, _align, hex] => do
    let bits ← nat? bits; let prec ← nat? prec; let pf ← nat? pf; let mp ← nat? maxPixels; let bu ← nat? bu
    let file ← hexBytes? hex
    let P := effPrecision bits prec
    match load P pf mp (bu != 0) file with
    | .error e => some s!"err {e.name}"
    | .ok img =>
      if img.pf = 11 then some s!"ok {img.w} {img.h} 11 cmyk" else
      let h := img.rows.foldl (fun h r => r.foldl c18fnv h) 14695981039346656037
      let mx := img.rows.foldl (fun m r => r.foldl (fun m v => if v > m then v else m) m) (0 : Int)
      some s!"ok {img.w} {img.h} {img.pf} {h} max{mx}"
  -- pnmsave bits prec pf bottomUp w h seed : digest of the file written for a formula image
  | ["pnmsave", bits, prec, pf, bu, w, h, seed, _align, ext] => do
    if ext ≠ "0" then none else
    let bits ← nat? bits; let prec ← nat? prec; let pf ← nat? pf; let bu ← nat? bu
    let w ← nat? w; let h ← nat? h; let seed ← nat? seed
    if pf = 11 then none else
    let P := effPrecision bits prec
    let ps := if pf = 6 then 1 else ((pfLayout pf).map (fun l => l.2.2.2.2)).getD 3
    let rows := (List.range h).map (fun y => (List.range (w * ps)).map (fun x =>
      ((seed + 1) * (y * 131 + x * 17 + 7) * 40503 / 64) % (2 ^ P)))
    match save P bits pf (bu != 0) w h rows with
    | none => some "err"
    | some f => some s!"ok {f.length} {fnv f}"
  | _ => none

end LJT.Ops
