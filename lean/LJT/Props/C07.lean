import LJT.Proofs.DCT
/-! # C07 - lossy round-trip error is bounded by the quantisation steps

Property theorems about `LJT.DCT` (Model/DCT.lean), the model of the accurate-integer-DCT
sample path for components that are neither subsampled nor colour-converted.  The general
per-block RMS clause is decided on the real codec by the harness oracle; proved here are its
ingredients and the constant-image clause. -/
namespace LJT.Props.C07
open LJT.DCT

/-- **Quantisation is rounding to nearest (8-bit samples, reciprocal method).**  For both word
sizes of `DCTELEM` (any `W ≥ 16`), every positive divisor - including those above 16 bits that
16-bit tables produce - and every coefficient of magnitude below 2^15, the
multiply-by-reciprocal quantiser of `compute_reciprocal`/`quantize` returns
`sign(w) * floor((|w| + d/2) / d)`. -/
theorem quant_is_round_nearest (W d : Nat) (w : Int) (hW : 16 ≤ W) (hd : 0 < d) (hw : w.natAbs < 32768) :
    quantize8 W d w = roundDiv d w := quantize8_round W d w hW hd hw

/-- the same for the division path used with 12-bit samples (`DIVIDE_BY`) -/
theorem quant12_is_round_nearest (d : Nat) (w : Int) (hd : 0 < d) :
    quantize12 d w = roundDiv d w := quantize12_round d w hd

/-- **The quantisation error of a coefficient is at most half a step**: with `d = 8 q` the
divisor and `Q` the quantised value, `|w - d Q| ≤ d / 2`. -/
theorem quant_error_le_half_step (prec W q : Nat) (w : Int) (hW : 16 ≤ W) (hq : 1 ≤ q)
    (hw : prec ≤ 8 → w.natAbs < 32768) :
    (w - ((q * 8 : Nat) : Int) * quantizeCoef prec W q w).natAbs ≤ q * 8 / 2 := by
  rw [quantizeCoef_round prec W q w hW hq hw]
  have := roundDiv_err (q * 8) (by omega) w
  omega

/-- **Range limiting is the clamp** on everything the IDCT can deliver for a valid stream
(`[-2(MAX+1), 2(MAX+1))` before the level shift) -/
theorem range_limit_is_clamp (prec : Nat) (z : Int)
    (h1 : - (2 * (maxSample prec + 1)) ≤ z) (h2 : z < 2 * (maxSample prec + 1)) :
    rangeLimit prec z = max 0 (min (maxSample prec) (z + center prec)) := rangeLimit_clamp prec z h1 h2

/-- ... and therefore a projection: it never moves a value away from an in-range sample -/
theorem range_limit_projection (prec : Nat) (z x : Int)
    (h1 : - (2 * (maxSample prec + 1)) ≤ z) (h2 : z < 2 * (maxSample prec + 1))
    (hx0 : 0 ≤ x) (hx1 : x ≤ maxSample prec) :
    (rangeLimit prec z - x).natAbs ≤ (z + center prec - x).natAbs := by
  rw [rangeLimit_clamp prec z h1 h2]; omega

/-- **The zero-AC shortcuts of `jpeg_idct_islow` are exact**: when the AC terms of a column
(resp. of a workspace row) vanish, the general butterfly returns what the shortcut returns. -/
theorem idct_shortcuts_exact (P : Nat) (hP : P = 1 ∨ P = 2) (c0 q0 q1 q2 q3 q4 q5 q6 q7 w0 : Int) :
    idctColGen P [c0, 0, 0, 0, 0, 0, 0, 0] [q0, q1, q2, q3, q4, q5, q6, q7] = idctCol P [c0, 0, 0, 0, 0, 0, 0, 0] [q0, q1, q2, q3, q4, q5, q6, q7]
    ∧ idctRowGen P [w0, 0, 0, 0, 0, 0, 0, 0] = idctRow P [w0, 0, 0, 0, 0, 0, 0, 0] := by
  constructor
  · rw [idctColGen_zero_ac P hP, idctCol_dc]; rfl
  · rw [idctRowGen_zero_ac P hP, idctRow_dc]; rfl

/-- the forward DCT of a constant block has the single coefficient `64 x` (8 x the true DC) -/
theorem fdct_of_constant (P : Nat) (hP : P = 1 ∨ P = 2) (x : Int) :
    fdctIslow P (List.replicate 64 x) = (64 * x) :: List.replicate 63 0 := fdctIslow_const P hP x

/-- **Constant images.**  For 8- and 12-bit samples, both word sizes, every quantisation table
with entries ≥ 1 (no upper limit) and every in-range sample value `v`: each sample of the
decoded constant block is within `ceil(q0 / 16) + 1` of `v`. -/
theorem constant_image_bound (prec W : Nat) (hprec : prec = 8 ∨ prec = 12) (hW : 16 ≤ W) (q : List Nat)
    (hne : q ≠ []) (hpos : ∀ k, 1 ≤ q.getD k 1) (v : Int) (hv0 : 0 ≤ v) (hv1 : v ≤ maxSample prec) :
    ∀ y ∈ roundtripBlock prec W q (List.replicate 64 v), (y - v).natAbs ≤ (q.getD 0 1 + 15) / 16 + 1 :=
  constant_block_bound prec W hprec hW q hne hpos v hv0 hv1

/-- non-vacuity: a concrete table and value meet the hypotheses, and the bound is attained
up to one level by the model -/
example : (∀ k, 1 ≤ ([40, 3, 7] : List Nat).getD k 1) ∧ ([40, 3, 7] : List Nat) ≠ [] ∧ (0 : Int) ≤ 201 ∧ (201 : Int) ≤ maxSample 8 := by
  refine ⟨?_, by simp, by omega, by simp [maxSample]⟩
  intro k
  match k with
  | 0 => simp
  | 1 => simp
  | 2 => simp
  | n + 3 => simp
example : quantize8 16 24 100 = 4 ∧ roundDiv 24 100 = 4 ∧ quantize8 32 262136 (-8192) = 0 := by decide

end LJT.Props.C07
