import LJT.Proofs.SeqHuff
/-! How many bits the Huffman block decoder can consume (C01): every successfully decoded symbol
takes at most 16 bits, every coefficient at most 16 + 15, a block at most 32 + 63 * 31 bits.  The
bound feeds the obligation on `BUFSIZE` of src/jdhuff.c (the fast path reads the source buffer
without an end check and is entered only when `BUFSIZE` bytes per block are available). -/
namespace LJT.SeqHuff
open LJT.Huff LJT.LL

/-- a symbol decoded without the "bad code" flag used at most `16 - l + 1` further bits -/
theorem decodeLv_consumes (vals : List Nat) : ∀ (lv : List (Int × Int)) (l : Nat) (code : Int) (bs : List Bool)
    (s : Nat) (rest : List Bool), decodeLv vals lv l code bs = some (s, false, rest) →
    (∃ n, bs.length = rest.length + n ∧ l + n ≤ 16) ∧ (s = 0 ∨ s ∈ vals) := by
  intro lv
  induction lv with
  | nil => intro l code bs s rest h; simp [decodeLv] at h
  | cons x lv ih =>
    intro l code bs s rest h
    obtain ⟨mc, vo⟩ := x
    unfold decodeLv at h
    by_cases hc : code ≤ mc
    · rw [if_pos hc] at h
      by_cases hl : l > 16
      · rw [if_pos hl] at h; simp at h
      · rw [if_neg hl] at h
        simp only [Option.some.injEq, Prod.mk.injEq, true_and] at h
        refine ⟨⟨0, by rw [h.2]; omega, by omega⟩, ?_⟩
        rw [← h.1]
        by_cases hi : (code + vo).toNat < vals.length
        · right; simp [List.getD, List.getElem?_eq_getElem hi]
        · left; simp [List.getD, List.getElem?_eq_none (by omega : vals.length ≤ (code + vo).toNat)]
    · rw [if_neg hc] at h
      cases bs with
      | nil => simp at h
      | cons b bs' =>
        simp only at h
        obtain ⟨⟨n, hn, hb⟩, hm⟩ := ih (l + 1) _ bs' s rest h
        exact ⟨⟨n + 1, by simp [hn]; omega, by omega⟩, hm⟩

theorem decode_consumes (d : DDerived) (bits : List Bool) (s : Nat) (rest : List Bool)
    (h : decode d bits = some (s, false, rest)) : (∃ n, bits.length = rest.length + n ∧ n ≤ 16) ∧ (s = 0 ∨ s ∈ d.vals) := by
  cases bits with
  | nil => simp [decode] at h
  | cons b bs =>
    simp only [decode] at h
    obtain ⟨⟨n, hn, hb⟩, hm⟩ := decodeLv_consumes d.vals d.levels 1 _ bs s rest h
    exact ⟨⟨n + 1, by simp [hn]; omega, by omega⟩, hm⟩

/-- the AC decoder consumes at most 31 bits per coefficient it delivers -/
theorem decodeAC_consumes (dd : DDerived) : ∀ (fuel rem : Nat) (bits : List Bool) (l : List Int) (rest : List Bool),
    decodeAC dd fuel rem bits = some (l, rest) → ∃ n, bits.length = rest.length + n ∧ n ≤ 31 * rem := by
  intro fuel
  induction fuel with
  | zero =>
    intro rem bits l rest h
    unfold decodeAC at h
    split at h
    · simp at h; exact ⟨0, by rw [h.2]; omega, by omega⟩
    · simp at h
  | succ f ih =>
    intro rem bits l rest h
    rw [decodeAC_succ] at h
    by_cases h0 : rem = 0
    · rw [if_pos h0] at h; simp at h; exact ⟨0, by rw [h.2]; omega, by omega⟩
    · rw [if_neg h0] at h
      cases hd : decode dd bits with
      | none => rw [hd] at h; simp at h
      | some x =>
        obtain ⟨s, flag, rst⟩ := x
        rw [hd] at h
        cases flag with
        | true => simp at h
        | false =>
          obtain ⟨⟨n0, hn0, hb0⟩, _⟩ := decode_consumes dd bits s rst hd
          simp only at h
          by_cases hs : s % 16 ≠ 0
          · rw [if_pos hs] at h
            by_cases hr : s / 16 + 1 > rem
            · rw [if_pos hr] at h; simp at h
            · rw [if_neg hr] at h
              by_cases hlen : rst.length < s % 16
              · rw [if_pos hlen] at h; simp at h
              · rw [if_neg hlen] at h
                cases hrec : decodeAC dd f (rem - s / 16 - 1) (rst.drop (s % 16)) with
                | none => rw [hrec] at h; simp at h
                | some y =>
                  obtain ⟨l', b'⟩ := y
                  rw [hrec] at h
                  simp at h
                  obtain ⟨n1, hn1, hb1⟩ := ih _ _ _ _ hrec
                  refine ⟨n0 + s % 16 + n1, ?_, ?_⟩
                  · rw [← h.2]; simp at hn1; omega
                  · have : s % 16 < 16 := Nat.mod_lt _ (by omega)
                    omega
          · rw [if_neg hs] at h
            by_cases h15 : s / 16 = 15
            · rw [if_pos h15] at h
              by_cases h16 : 16 > rem
              · rw [if_pos h16] at h; simp at h
              · rw [if_neg h16] at h
                cases hrec : decodeAC dd f (rem - 16) rst with
                | none => rw [hrec] at h; simp at h
                | some y =>
                  obtain ⟨l', b'⟩ := y
                  rw [hrec] at h
                  simp at h
                  obtain ⟨n1, hn1, hb1⟩ := ih _ _ _ _ hrec
                  exact ⟨n0 + n1, by rw [← h.2]; omega, by omega⟩
            · rw [if_neg h15] at h
              by_cases hz : s / 16 = 0
              · rw [if_pos hz] at h; simp at h
                exact ⟨n0, by rw [← h.2]; omega, by omega⟩
              · rw [if_neg hz] at h; simp at h

/-- one DC difference takes at most 32 bits -/
theorem decodeItem_consumes (dd : DDerived) (hsym : ∀ v ∈ dd.vals, v ≤ 16) (bits : List Bool) (d : Int) (rest : List Bool)
    (hflag : ∀ s r, decode dd bits ≠ some (s, true, r)) (h : decodeItem dd bits = some (d, rest)) :
    ∃ n, bits.length = rest.length + n ∧ n ≤ 32 := by
  unfold decodeItem at h
  cases hd : decode dd bits with
  | none => rw [hd] at h; simp at h
  | some x =>
    obtain ⟨s, flag, rst⟩ := x
    cases flag with
    | true => exact absurd hd (hflag s rst)
    | false =>
      rw [hd] at h
      obtain ⟨⟨n0, hn0, hb0⟩, hmem⟩ := decode_consumes dd bits s rst hd
      have hs16 : s ≤ 16 := by
        rcases hmem with h0 | hm
        · omega
        · exact hsym s hm
      simp only at h
      by_cases h0 : s = 0
      · rw [if_pos h0] at h; simp at h; exact ⟨n0, by rw [← h.2]; omega, by omega⟩
      · rw [if_neg h0] at h
        by_cases h16 : s = 16
        · rw [if_pos h16] at h; simp at h; exact ⟨n0, by rw [← h.2]; omega, by omega⟩
        · rw [if_neg h16] at h
          by_cases hl : rst.length < s
          · rw [if_pos hl] at h; simp at h
          · rw [if_neg hl] at h
            simp at h
            exact ⟨n0 + s, by rw [← h.2]; simp; omega, by omega⟩

/-- **a whole block takes at most 32 + 63 * 31 = 1985 bits**, whatever the bits and the tables are -/
theorem decodeBlock_consumes (ddc dac : DDerived) (hsym : ∀ v ∈ ddc.vals, v ≤ 16) (bits : List Bool)
    (diff : Int) (ac : List Int) (rest : List Bool) (h : decodeBlock ddc dac bits = some (diff, ac, rest)) :
    ∃ n, bits.length = rest.length + n ∧ n ≤ 1985 := by
  unfold decodeBlock at h
  have hflag : ∀ s r, decode ddc bits ≠ some (s, true, r) := by
    intro s r hd
    rw [hd] at h
    simp at h
  have h' : (match decodeItem ddc bits with
      | none => none
      | some (diff, rest) =>
        match decodeAC dac 64 63 rest with
        | none => none
        | some (ac, rest') => some (diff, ac, rest')) = some (diff, ac, rest) := by
    cases hd : decode ddc bits with
    | none => rw [hd] at h; exact h
    | some x =>
      obtain ⟨s, flag, r⟩ := x
      cases flag with
      | true => exact absurd hd (hflag s r)
      | false => rw [hd] at h; exact h
  cases hi : decodeItem ddc bits with
  | none => rw [hi] at h'; simp at h'
  | some x =>
    obtain ⟨d, r1⟩ := x
    rw [hi] at h'
    simp only at h'
    cases ha : decodeAC dac 64 63 r1 with
    | none => rw [ha] at h'; simp at h'
    | some y =>
      obtain ⟨a, r2⟩ := y
      rw [ha] at h'
      simp at h'
      obtain ⟨n1, hn1, hb1⟩ := decodeItem_consumes ddc hsym bits d r1 hflag hi
      obtain ⟨n2, hn2, hb2⟩ := decodeAC_consumes dac 64 63 r1 a r2 ha
      exact ⟨n1 + n2, by rw [← h'.2.2]; omega, by omega⟩

end LJT.SeqHuff
