import LJT.Gen.Tables
/-! The QM arithmetic decoder of T.81 Annex D as coded in src/jdarith.c (`arith_decode`) and the
statistics bins.  The binarisation of coefficients on top of it is in Model/ArithBin.lean.  Executable model used
by the independent reader for arithmetic-coded streams. -/
namespace LJT.Arith

/-- ITU-T T.81 Table D.3 (Qe, Next_Index_LPS, Next_Index_MPS, Switch_MPS for the 113 states of the
probability estimation state machine) followed by the fixed 0.5 estimate of T.851 used for the
sign / refinement decisions.  This literal is the specification: the table of src/jaricom.c is
regenerated into `Gen.aritab` on every run and must equal its packed form
(`Props/C04.lean: qm_table_is_table_D3`); the models below use the literal, not the generated table. -/
def tableD3 : List (Nat × Nat × Nat × Nat) := [
  (0x5a1d, 1, 1, 1), (0x2586, 14, 2, 0), (0x1114, 16, 3, 0), (0x080b, 18, 4, 0), (0x03d8, 20, 5, 0), (0x01da, 23, 6, 0),
  (0x00e5, 25, 7, 0), (0x006f, 28, 8, 0), (0x0036, 30, 9, 0), (0x001a, 33, 10, 0), (0x000d, 35, 11, 0), (0x0006, 9, 12, 0),
  (0x0003, 10, 13, 0), (0x0001, 12, 13, 0), (0x5a7f, 15, 15, 1), (0x3f25, 36, 16, 0), (0x2cf2, 38, 17, 0), (0x207c, 39, 18, 0),
  (0x17b9, 40, 19, 0), (0x1182, 42, 20, 0), (0x0cef, 43, 21, 0), (0x09a1, 45, 22, 0), (0x072f, 46, 23, 0), (0x055c, 48, 24, 0),
  (0x0406, 49, 25, 0), (0x0303, 51, 26, 0), (0x0240, 52, 27, 0), (0x01b1, 54, 28, 0), (0x0144, 56, 29, 0), (0x00f5, 57, 30, 0),
  (0x00b7, 59, 31, 0), (0x008a, 60, 32, 0), (0x0068, 62, 33, 0), (0x004e, 63, 34, 0), (0x003b, 32, 35, 0), (0x002c, 33, 9, 0),
  (0x5ae1, 37, 37, 1), (0x484c, 64, 38, 0), (0x3a0d, 65, 39, 0), (0x2ef1, 67, 40, 0), (0x261f, 68, 41, 0), (0x1f33, 69, 42, 0),
  (0x19a8, 70, 43, 0), (0x1518, 72, 44, 0), (0x1177, 73, 45, 0), (0x0e74, 74, 46, 0), (0x0bfb, 75, 47, 0), (0x09f8, 77, 48, 0),
  (0x0861, 78, 49, 0), (0x0706, 79, 50, 0), (0x05cd, 48, 51, 0), (0x04de, 50, 52, 0), (0x040f, 50, 53, 0), (0x0363, 51, 54, 0),
  (0x02d4, 52, 55, 0), (0x025c, 53, 56, 0), (0x01f8, 54, 57, 0), (0x01a4, 55, 58, 0), (0x0160, 56, 59, 0), (0x0125, 57, 60, 0),
  (0x00f6, 58, 61, 0), (0x00cb, 59, 62, 0), (0x00ab, 61, 63, 0), (0x008f, 61, 32, 0), (0x5b12, 65, 65, 1), (0x4d04, 80, 66, 0),
  (0x412c, 81, 67, 0), (0x37d8, 82, 68, 0), (0x2fe8, 83, 69, 0), (0x293c, 84, 70, 0), (0x2379, 86, 71, 0), (0x1edf, 87, 72, 0),
  (0x1aa9, 87, 73, 0), (0x174e, 72, 74, 0), (0x1424, 72, 75, 0), (0x119c, 74, 76, 0), (0x0f6b, 74, 77, 0), (0x0d51, 75, 78, 0),
  (0x0bb6, 77, 79, 0), (0x0a40, 77, 48, 0), (0x5832, 80, 81, 1), (0x4d1c, 88, 82, 0), (0x438e, 89, 83, 0), (0x3bdd, 90, 84, 0),
  (0x34ee, 91, 85, 0), (0x2eae, 92, 86, 0), (0x299a, 93, 87, 0), (0x2516, 86, 71, 0), (0x5570, 88, 89, 1), (0x4ca9, 95, 90, 0),
  (0x44d9, 96, 91, 0), (0x3e22, 97, 92, 0), (0x3824, 99, 93, 0), (0x32b4, 99, 94, 0), (0x2e17, 93, 86, 0), (0x56a8, 95, 96, 1),
  (0x4f46, 101, 97, 0), (0x47e5, 102, 98, 0), (0x41cf, 103, 99, 0), (0x3c3d, 104, 100, 0), (0x375e, 99, 93, 0), (0x5231, 105, 102, 0),
  (0x4c0f, 106, 103, 0), (0x4639, 107, 104, 0), (0x415e, 103, 99, 0), (0x5627, 105, 106, 1), (0x50e7, 108, 107, 0), (0x4b85, 109, 103, 0),
  (0x5597, 110, 109, 0), (0x504f, 111, 107, 0), (0x5a10, 110, 111, 1), (0x5522, 112, 109, 0), (0x59eb, 112, 111, 1), (0x5a1d, 113, 113, 0)]

/-- the packing of src/jaricom.c: Qe << 16 | Next_MPS << 8 | Switch << 7 | Next_LPS -/
def qmTable : List Nat := tableD3.map (fun e => e.1 * 65536 + e.2.2.1 * 256 + e.2.2.2 * 128 + e.2.1)

/-- decoder registers, the unread bytes of the interval, and all statistics bins:
DC table `t` at `t*64`, AC table `t` at `1024 + t*256`, the fixed bin at 5120 -/
structure AS where
  c : Nat
  a : Nat
  ct : Int
  data : List Nat
  atMarker : Bool
  stats : Array Nat
  err : Bool

def fixedBin : Nat := 5120
def dcBase (t : Nat) : Nat := t * 64
def acBase (t : Nat) : Nat := 1024 + t * 256

def AS.init (data : List Nat) : AS :=
  ⟨0, 0, -16, data, false, (Array.replicate 5121 0).set! fixedBin 113, false⟩

/-- `get_byte` with the marker / stuffing convention of `arith_decode` -/
def nextByte (s : AS) : Nat × AS :=
  if s.atMarker then (0, s) else
  match s.data with
  | [] => (0, { s with atMarker := true })
  | b :: r =>
    if b != 0xFF then (b, { s with data := r }) else
    -- swallow extra 0xFF bytes
    let r' := r.dropWhile (· == 0xFF)
    match r' with
    | [] => (0, { s with data := [], atMarker := true })
    | x :: r2 => if x == 0 then (0xFF, { s with data := r2 }) else (0, { s with data := r', atMarker := true })

/-- renormalisation loop of `arith_decode` -/
def renorm : Nat → AS → AS
  | 0, s => s
  | fuel + 1, s =>
    if s.a ≥ 0x8000 then s else
    let s := Id.run do
      let mut s := s
      s := { s with ct := s.ct - 1 }
      if s.ct < 0 then
        let (d, s') := nextByte s
        s := { s' with c := s'.c * 256 + d, ct := s'.ct + 8 }
        if s.ct < 0 then
          s := { s with ct := s.ct + 1 }
          if s.ct == 0 then s := { s with a := 0x8000 }
      return s
    renorm fuel { s with a := s.a * 2 }

/-- `arith_decode`: one binary decision with the statistics bin `st` -/
def decode (s : AS) (st : Nat) : Nat × AS :=
  let s := renorm 64 s
  let sv := s.stats.getD st 0
  let q := qmTable.getD (sv % 128) 0
  let nl := q % 256
  let nm := (q / 256) % 256
  let qe := q / 65536
  let a1 := s.a - qe
  let temp := a1 * 2 ^ s.ct.toNat
  if s.c ≥ temp then
    let c := s.c - temp
    if a1 < qe then
      (sv / 128, { s with c := c, a := qe, stats := s.stats.setIfInBounds st (((sv / 128) * 128) ^^^ nm) })
    else
      (1 - sv / 128, { s with c := c, a := qe, stats := s.stats.setIfInBounds st (((sv / 128) * 128) ^^^ nl) })
  else if a1 < 0x8000 then
    if a1 < qe then
      (1 - sv / 128, { s with a := a1, stats := s.stats.setIfInBounds st (((sv / 128) * 128) ^^^ nl) })
    else
      (sv / 128, { s with a := a1, stats := s.stats.setIfInBounds st (((sv / 128) * 128) ^^^ nm) })
  else (sv / 128, { s with a := a1 })

end LJT.Arith
