import LJT.Gen.TJ
import LJT.Gen.Tables
/-! Header-level pieces used by C16: `getSubsamp` (src/turbojpeg.c) and the
saved-marker length rule (`jpeg_save_markers` / `save_marker`, src/jdmarker.c). -/
namespace LJT.Header
open LJT.Gen

def mw (i : Nat) : Nat := tjMCUWidth.getD i 0 / 8
def mh (i : Nat) : Nat := tjMCUHeight.getD i 0 / 8

/-- all components `1 .. nc-1` satisfy `p k` -/
def allRest (nc : Nat) (c : List (Nat × Nat)) (p : Nat → Nat × Nat → Bool) : Bool :=
  (List.range (nc - 1)).all (fun k => p (k + 1) (c.getD (k + 1) (0, 0)))

/-- one iteration of the `for (i = 0; i < TJ_NUMSAMP; i++)` loop of `getSubsamp`;
state = `(retval, broke out of the loop)` -/
def ssStep (nc jcs : Nat) (c : List (Nat × Nat)) (st : Int × Bool) (i : Nat) : Int × Bool :=
  if st.2 then st
  else if i = TJSAMP_GRAY then st
  else
    let cmyk := decide (jcs = JCS_YCCK ∨ jcs = JCS_CMYK)
    let c0 := c.getD 0 (0, 0)
    if decide (nc = 3) || (cmyk && decide (nc = 4)) then
      if decide (c0.1 = mw i ∧ c0.2 = mh i) &&
          allRest nc c (fun k ck =>
            let r := if cmyk && decide (k = 3) then (mw i, mh i) else (1, 1)
            ck.1 == r.1 && ck.2 == r.2) then ((i : Int), true)
      else if decide (c0.1 = 2 ∧ c0.2 = 2 ∧ (i = TJSAMP_422 ∨ i = TJSAMP_440)) &&
          allRest nc c (fun k ck =>
            let r := if cmyk && decide (k = 3) then (2, 2) else (mh i, mw i)
            ck.1 == r.1 && ck.2 == r.2) then ((i : Int), true)
      else if decide (c0.1 * c0.2 ≤ D_MAX_BLOCKS_IN_MCU / 3 ∧ i = TJSAMP_444) &&
          allRest nc c (fun _ ck => ck.1 == c0.1 && ck.2 == c0.2) then ((i : Int), false)
      else st
    else st

/-- `getSubsamp`: sampling factors -> TJSAMP level, `-1` = TJSAMP_UNKNOWN.
`c` lists `(h_samp_factor, v_samp_factor)` per component. -/
def getSubsamp (nc jcs : Nat) (c : List (Nat × Nat)) : Int :=
  if nc = 1 ∧ jcs = JCS_GRAYSCALE then (TJSAMP_GRAY : Int)
  else ((List.range TJ_NUMSAMP).foldl (ssStep nc jcs c) (-1, false)).1

/-- effective save limit installed by `jpeg_save_markers(code, limit)` -/
def saveLimit (code limit : Nat) : Nat :=
  if limit = 0 then 0
  else if code = 0xE0 ∧ limit < APP0_DATA_LEN then APP0_DATA_LEN
  else if code = 0xEE ∧ limit < APP14_DATA_LEN then APP14_DATA_LEN
  else limit

/-- what `save_marker` stores for a marker with payload `data`: `none` when the marker
is not saved (limit 0: handled by skip_variable / get_interesting_appn) -/
def saved (code limit : Nat) (data : List Nat) : Option (List Nat × Nat) :=
  let l := saveLimit code limit
  if l = 0 then none else some (data.take (min l data.length), data.length)

end LJT.Header
