import LJT.Ops.Util
import LJT.Model.T81
namespace LJT.Ops
open LJT.T81

def c03fnv16 (h : Nat) (v : Int) : Nat :=
  let u := (v % 65536).toNat
  let h := ((h ^^^ (u % 256)) * 1099511628211) % 18446744073709551616
  ((h ^^^ (u / 256)) * 1099511628211) % 18446744073709551616

def t81Line (r : Result) : String :=
  let f := r.frame
  let per := f.comps.zip r.coefs |>.map (fun (c, (wb, hb, a)) =>
    let hq := match r.qt.getD c.tq none with
      | some q => q.foldl (fun h (v : Nat) => c03fnv16 h (v : Int)) 14695981039346656037
      | none => 14695981039346656037
    let h := a.foldl c03fnv16 14695981039346656037
    s!"{c.h}{c.v} q{hq} {wb}x{hb} {h}")
  s!"ok P{f.prec} {f.width}x{f.height} nc{f.comps.length} prog{if f.sof == 0xC2 || f.sof == 0xCA then 1 else 0} ri{r.ri} scans{r.nscans} | " ++ " ".intercalate per ++ " w0"

def opC03 : List String → Option String
  | ["t81", hex] => do
    let bytes ← hexBytes? hex
    match decode bytes with
    | .error e => some s!"err {e}"
    | .ok r => some (t81Line r)
  | _ => none

end LJT.Ops
