#!/bin/bash
# import a round-3 seeded change produced by a sub-agent under /tmp/seed3/<id> into seeded/<id>/m3
id=$1
mkdir -p /verif/seeded/$id/m3
cp /tmp/seed3/$id/patch.diff /tmp/seed3/$id/meta.json /verif/seeded/$id/m3/
cp /tmp/seed3/$id/demo_m3.* /verif/seeded/$id/m3/ 2>/dev/null
git -C /repo apply --check /verif/seeded/$id/m3/patch.diff && echo "applies: $id"
