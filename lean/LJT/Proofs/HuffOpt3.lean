import LJT.Proofs.HuffOpt2
/-! K.2 generator, part 3: the pseudo-symbol ends up on the deepest level.

Ghost state carried along the merge loop: the weights and slots of the pair merged last, the
depth `h` of the pseudo-symbol `P` in its tree and, for `1 ≤ k ≤ h`, the key `anc k` its `k`-th
ancestor had when it was created.  Keys of created trees increase strictly with time, and
the `k`-th ancestor of `P` is created before any other tree of height `k`. -/
set_option maxRecDepth 20000
namespace LJT.Huff

structure Ghost where
  wa : Nat
  ia : Nat
  wb : Nat
  ib : Nat
  h : Nat
  anc : Nat → Nat

def Ghost.klast (g : Ghost) : Nat := (g.wa + g.wb) * 512 + (511 - g.ia)
def Ghost.kb (g : Ghost) : Nat := g.wb * 512 + (511 - g.ib)
def Ghost.ka (g : Ghost) : Nat := g.wa * 512 + (511 - g.ia)

structure PInv (P : Nat) (ts : List Tree) (g : Ghost) : Prop where
  ia_lt : g.ia < 512
  ib_lt : g.ib < 512
  ka_lt : g.ka < g.kb
  above : ∀ t ∈ ts, g.kb < key t
  tp : ∃ TP ∈ ts, (P, g.h) ∈ TP.mem ∧ (∀ p ∈ TP.mem, p.2 ≤ g.h) ∧ (1 ≤ g.h → key TP = g.anc g.h) ∧
        (g.h = 0 → ∀ t ∈ ts, t ≠ TP → key TP < key t) ∧
        (∀ t ∈ ts, t ≠ TP → ∀ p ∈ t.mem, 1 ≤ p.2 → p.2 ≤ g.h ∧ g.anc p.2 < key t)
  anc_mono : ∀ j k, 1 ≤ j → j < k → k ≤ g.h → g.anc j < g.anc k
  anc_le : ∀ k, 1 ≤ k → k ≤ g.h → g.anc k ≤ g.klast
  created : ∀ t ∈ ts, (∃ p ∈ t.mem, 1 ≤ p.2) → key t ≤ g.klast

theorem key_merge (a b : Tree) : key (mergeTrees a b) = (a.w + b.w) * 512 + (511 - a.idx) := rfl

theorem PInv.step {P : Nat} {ts ts' : List Tree} {g : Ghost} {a b : Tree} {rest : List Tree}
    (h : PInv P ts g) (p1 : ts.Perm (a :: b :: rest)) (p2 : ts'.Perm (mergeTrees a b :: rest))
    (hab : key a < key b) (hrest : ∀ t ∈ rest, key b < key t)
    (hai : a.idx < 512) (hbi : b.idx < 512) (haw : 1 ≤ a.w)
    (hna : a ∉ rest) (hnb : b ∉ rest) (hidx : ∀ t ∈ rest, t.idx ≠ a.idx) :
    ∃ g', PInv P ts' g' := by
  have hne : a ≠ b := fun e => by subst e; omega
  have mem_ts : ∀ t, t ∈ ts ↔ t = a ∨ t = b ∨ t ∈ rest := by
    intro t; rw [p1.mem_iff]; simp
  have mem_ts' : ∀ t, t ∈ ts' ↔ t = mergeTrees a b ∨ t ∈ rest := by
    intro t; rw [p2.mem_iff]; simp
  have ha : a ∈ ts := (mem_ts a).2 (Or.inl rfl)
  have hb : b ∈ ts := (mem_ts b).2 (Or.inr (Or.inl rfl))
  have hm_ne : ∀ t ∈ rest, t ≠ mergeTrees a b := by
    intro t ht e; apply hidx t ht; rw [e]; rfl
  have kba := h.above a ha
  have hka := h.ka_lt
  have hia := h.ia_lt
  have hib := h.ib_lt
  -- keys of created trees increase
  have F1 : g.klast < key (mergeTrees a b) := by
    rw [key_merge]; unfold key at hab kba; unfold Ghost.klast; unfold Ghost.ka Ghost.kb at hka
    unfold Ghost.kb at kba
    omega
  have F3 : key b < key (mergeTrees a b) := by
    rw [key_merge]; unfold key; omega
  obtain ⟨TP, hTP, hPm, hPd, hPk, hP0, hPo⟩ := h.tp
  have common_above : ∀ t ∈ ts', key b < key t := by
    intro t ht
    rcases (mem_ts' t).1 ht with e | e
    · rw [e]; exact F3
    · exact hrest t e
  have common_created : ∀ t ∈ ts', (∃ p ∈ t.mem, 1 ≤ p.2) → key t ≤ key (mergeTrees a b) := by
    intro t ht hc
    rcases (mem_ts' t).1 ht with e | e
    · rw [e]; exact Nat.le_refl _
    · have := h.created t ((mem_ts t).2 (Or.inr (Or.inr e))) hc; omega
  rcases (mem_ts TP).1 hTP with eTP | eTP | eTP
  · -- the pseudo-symbol's tree is `a`
    subst eTP
    refine ⟨⟨TP.w, TP.idx, b.w, b.idx, g.h + 1, fun k => if k = g.h + 1 then key (mergeTrees TP b) else g.anc k⟩, ?_⟩
    refine ⟨hai, hbi, hab, common_above, ?_, ?_, ?_, ?_⟩
    · refine ⟨mergeTrees TP b, (mem_ts' _).2 (Or.inl rfl), ?_, ?_, ?_, ?_, ?_⟩
      · simp only [mergeTrees, bump, List.mem_map, List.mem_append]
        exact ⟨(P, g.h), Or.inl hPm, rfl⟩
      · intro p hp
        obtain ⟨q, hq, e⟩ := mem_mergeTrees hp
        rw [e]; simp only
        rcases hq with hq | hq
        · have := hPd q hq; omega
        · by_cases h0 : 1 ≤ q.2
          · have := (hPo b hb (Ne.symm hne) q hq h0).1; omega
          · omega
      · intro _; simp
      · intro h0; simp at h0
      · intro t ht hne' p hp hp1
        rcases (mem_ts' t).1 ht with e | e
        · exact absurd e hne'
        · have := hPo t ((mem_ts t).2 (Or.inr (Or.inr e))) (fun e' => hna (e' ▸ e)) p hp hp1
          refine ⟨Nat.le_succ_of_le this.1, ?_⟩
          have hk : p.2 ≠ g.h + 1 := by have := this.1; omega
          simp only [hk, if_false]; exact this.2
    · intro j k hj hjk hk
      dsimp only at hk ⊢
      by_cases e : k = g.h + 1
      · have hj' : j ≠ g.h + 1 := by omega
        simp only [e, hj', if_true, if_false]
        have := h.anc_le j hj (by omega); omega
      · have hj' : j ≠ g.h + 1 := by omega
        simp only [e, hj', if_false]
        exact h.anc_mono j k hj hjk (by omega)
    · intro k hk1 hk
      dsimp only at hk ⊢
      by_cases e : k = g.h + 1
      · simp only [e, if_true]; exact Nat.le_refl _
      · simp only [e, if_false]
        have := h.anc_le k hk1 (by omega)
        show g.anc k ≤ (TP.w + b.w) * 512 + (511 - TP.idx)
        rw [key_merge] at F1; omega
    · intro t ht hc
      have := common_created t ht hc
      rw [key_merge] at this; exact this
  · -- the pseudo-symbol's tree is `b`
    subst eTP
    refine ⟨⟨a.w, a.idx, TP.w, TP.idx, g.h + 1, fun k => if k = g.h + 1 then key (mergeTrees a TP) else g.anc k⟩, ?_⟩
    refine ⟨hai, hbi, hab, common_above, ?_, ?_, ?_, ?_⟩
    · refine ⟨mergeTrees a TP, (mem_ts' _).2 (Or.inl rfl), ?_, ?_, ?_, ?_, ?_⟩
      · simp only [mergeTrees, bump, List.mem_map, List.mem_append]
        exact ⟨(P, g.h), Or.inr hPm, rfl⟩
      · intro p hp
        obtain ⟨q, hq, e⟩ := mem_mergeTrees hp
        rw [e]; simp only
        rcases hq with hq | hq
        · by_cases h0 : 1 ≤ q.2
          · have := (hPo a ha hne q hq h0).1; omega
          · omega
        · have := hPd q hq; omega
      · intro _; simp
      · intro h0; simp at h0
      · intro t ht hne' p hp hp1
        rcases (mem_ts' t).1 ht with e | e
        · exact absurd e hne'
        · have := hPo t ((mem_ts t).2 (Or.inr (Or.inr e))) (fun e' => hnb (e' ▸ e)) p hp hp1
          refine ⟨Nat.le_succ_of_le this.1, ?_⟩
          have hk : p.2 ≠ g.h + 1 := by have := this.1; omega
          simp only [hk, if_false]; exact this.2
    · intro j k hj hjk hk
      dsimp only at hk ⊢
      by_cases e : k = g.h + 1
      · have hj' : j ≠ g.h + 1 := by omega
        simp only [e, hj', if_true, if_false]
        have := h.anc_le j hj (by omega); omega
      · have hj' : j ≠ g.h + 1 := by omega
        simp only [e, hj', if_false]
        exact h.anc_mono j k hj hjk (by omega)
    · intro k hk1 hk
      dsimp only at hk ⊢
      by_cases e : k = g.h + 1
      · simp only [e, if_true]; exact Nat.le_refl _
      · simp only [e, if_false]
        have := h.anc_le k hk1 (by omega)
        show g.anc k ≤ (a.w + TP.w) * 512 + (511 - a.idx)
        rw [key_merge] at F1; omega
    · intro t ht hc
      have := common_created t ht hc
      rw [key_merge] at this; exact this
  · -- the pseudo-symbol's tree is not involved
    have hTPa : TP ≠ a := fun e => hna (e ▸ eTP)
    have hTPb : TP ≠ b := fun e => hnb (e ▸ eTP)
    have kTP : key b < key TP := hrest TP eTP
    have hh : 1 ≤ g.h := by
      by_cases h0 : g.h = 0
      · have := hP0 h0 a ha (Ne.symm hTPa); omega
      · omega
    have kTPanc := hPk hh
    refine ⟨⟨a.w, a.idx, b.w, b.idx, g.h, g.anc⟩, ?_⟩
    refine ⟨hai, hbi, hab, common_above, ?_, h.anc_mono, ?_, ?_⟩
    · refine ⟨TP, (mem_ts' _).2 (Or.inr eTP), hPm, hPd, hPk, ?_, ?_⟩
      · intro h0; simp only at h0; omega
      · intro t ht hne' p hp hp1
        simp only
        rcases (mem_ts' t).1 ht with e | e
        · subst e
          obtain ⟨q, hq, e⟩ := mem_mergeTrees hp
          have hanc : ∀ k, 1 ≤ k → k ≤ g.h → g.anc k < key (mergeTrees a b) := by
            intro k hk1 hk; have := h.anc_le k hk1 hk; omega
          have hX : ∀ X, X ∈ ts → X ≠ TP → key X ≤ key b → q ∈ X.mem → p.2 ≤ g.h := by
            intro X hX hXne hXk hqX
            rw [e]; simp only
            by_cases h0 : 1 ≤ q.2
            · have := hPo X hX hXne q hqX h0
              by_cases hq2 : q.2 = g.h
              · rw [hq2] at this; omega
              · omega
            · omega
          have hle : p.2 ≤ g.h := by
            rcases hq with hq | hq
            · exact hX a ha (Ne.symm hTPa) (by omega) hq
            · exact hX b hb (Ne.symm hTPb) (Nat.le_refl _) hq
          exact ⟨hle, hanc p.2 hp1 hle⟩
        · exact hPo t ((mem_ts t).2 (Or.inr (Or.inr e))) hne' p hp hp1
    · intro k hk1 hk
      have := h.anc_le k hk1 hk
      show g.anc k ≤ (a.w + b.w) * 512 + (511 - a.idx)
      rw [key_merge] at F1; omega
    · intro t ht hc
      have := common_created t ht hc
      rw [key_merge] at this; exact this

end LJT.Huff
