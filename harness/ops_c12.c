/* C12: instance results are independent of prior history, even after errors */
#include "exec_common.h"

#define C12_RND(m) ((int)((rs = c03_mix(rs)) % (unsigned long long)(m)))
#define C12_P(pct) (C12_RND(100) < (pct))

static int c12_fits(tjhandle h, const unsigned char *b, size_t n, size_t cap)
{
  int w, hh; if (tj3DecompressHeader(h, b, n) < 0) return 0;
  w = tj3Get(h, TJPARAM_JPEGWIDTH); hh = tj3Get(h, TJPARAM_JPEGHEIGHT);
  return w > 0 && hh > 0 && (size_t)w * 2 * (size_t)hh * 2 * 4 * 2 <= cap;   /* up to 2x scaling, 4 samples of 2 bytes */
}

static const int c12_settable[] = { TJPARAM_STOPONWARNING, TJPARAM_BOTTOMUP, TJPARAM_NOREALLOC, TJPARAM_QUALITY, TJPARAM_SUBSAMP, TJPARAM_PRECISION,
  TJPARAM_COLORSPACE, TJPARAM_FASTUPSAMPLE, TJPARAM_FASTDCT, TJPARAM_OPTIMIZE, TJPARAM_PROGRESSIVE, TJPARAM_SCANLIMIT, TJPARAM_ARITHMETIC,
  TJPARAM_LOSSLESS, TJPARAM_LOSSLESSPSV, TJPARAM_LOSSLESSPT, TJPARAM_RESTARTBLOCKS, TJPARAM_RESTARTROWS, TJPARAM_XDENSITY, TJPARAM_YDENSITY,
  TJPARAM_DENSITYUNITS, TJPARAM_MAXMEMORY, TJPARAM_MAXPIXELS, TJPARAM_SAVEMARKERS };
#define C12_NSET ((int)(sizeof(c12_settable) / sizeof(c12_settable[0])))

typedef struct { unsigned char *good, *icc, *prog, *ll; size_t ngood, nicc, nprog, nll; unsigned char img[48 * 40 * 3]; unsigned char prof[3000]; } c12_mat;

static void c12_materials(c12_mat *m, unsigned long long seed)
{
  tjhandle h; int i;
  for (i = 0; i < (int)sizeof(m->img); i++) m->img[i] = (unsigned char)(c03_mix(seed + (unsigned long long)(i / 3)) % 256ULL);
  for (i = 0; i < (int)sizeof(m->prof); i++) m->prof[i] = (unsigned char)(i * 13 + (int)seed);
  h = tj3Init(TJINIT_COMPRESS); tj3Set(h, TJPARAM_QUALITY, 85); tj3Set(h, TJPARAM_SUBSAMP, TJSAMP_420);
  m->good = NULL; m->ngood = 0; tj3Compress8(h, m->img, 48, 0, 40, TJPF_RGB, &m->good, &m->ngood);
  tj3SetICCProfile(h, m->prof, sizeof(m->prof)); m->icc = NULL; m->nicc = 0; tj3Compress8(h, m->img, 48, 0, 40, TJPF_RGB, &m->icc, &m->nicc);
  tj3SetICCProfile(h, NULL, 0); tj3Set(h, TJPARAM_PROGRESSIVE, 1); m->prog = NULL; m->nprog = 0; tj3Compress8(h, m->img, 48, 0, 40, TJPF_RGB, &m->prog, &m->nprog);
  tj3Set(h, TJPARAM_PROGRESSIVE, 0); tj3Set(h, TJPARAM_LOSSLESS, 1); m->ll = NULL; m->nll = 0; tj3Compress8(h, m->img, 48, 0, 40, TJPF_RGB, &m->ll, &m->nll);
  tj3Destroy(h);
}
static void c12_free(c12_mat *m) { tj3Free(m->good); tj3Free(m->icc); tj3Free(m->prog); tj3Free(m->ll); }

/* the probe: compress, decompress (with ICC retrieval) and transform with the handle's current settings */
static unsigned long long c12_probe(tjhandle h, c12_mat *m, int prec, char *desc, size_t dsz)
{
  unsigned long long hsh = 14695981039346656037ULL, hp[4] = { 0, 0, 0, 0 }; unsigned char *jp = NULL, *jp2 = NULL, *icc = NULL; size_t jn = 0, jn2 = 0, iccn = 0; int rc1, rc2, rc3, rc4 = 0, i; static unsigned char out[64 * 64 * 4 * 2]; tjtransform xf;
  static unsigned short img16[48 * 40 * 3];
#define MIXB(p, n) do { size_t q_; for (q_ = 0; q_ < (n); q_++) { hsh ^= ((const unsigned char *)(p))[q_]; hsh *= 1099511628211ULL; } } while (0)
  for (i = 0; i < 48 * 40 * 3; i++) img16[i] = (unsigned short)(m->img[i] >> (8 - (prec < 8 ? prec : 8)));
  if (prec <= 8) rc1 = tj3Compress8(h, m->img, 48, 0, 40, TJPF_RGB, &jp, &jn);
  else if (prec <= 12) rc1 = tj3Compress12(h, (short *)img16, 48, 0, 40, TJPF_RGB, &jp, &jn);
  else rc1 = tj3Compress16(h, img16, 48, 0, 40, TJPF_RGB, &jp, &jn);
  if (rc1 == 0) MIXB(jp, jn); else { const char *e = tj3GetErrorStr(h); MIXB(e, strlen(e)); }
  hp[0] = hsh;
  memset(out, 0, sizeof(out));
  rc2 = tj3DecompressHeader(h, m->icc, m->nicc);
  if (rc2 == 0) { rc2 = tj3Decompress8(h, m->icc, m->nicc, out, 0, TJPF_RGB); rc4 = tj3GetICCProfile(h, &icc, &iccn); }
  if (rc2 == 0) MIXB(out, 48 * 40 * 3); else { const char *e = tj3GetErrorStr(h); MIXB(e, strlen(e)); }
  hp[1] = hsh;
  if (rc4 == 0 && icc) MIXB(icc, iccn);
  hp[2] = hsh;
  memset(&xf, 0, sizeof(xf)); xf.op = TJXOP_ROT90; xf.options = TJXOPT_TRIM;
  rc3 = tj3Transform(h, m->prog, m->nprog, 1, &jp2, &jn2, &xf);
  if (rc3 == 0) MIXB(jp2, jn2); else { const char *e = tj3GetErrorStr(h); MIXB(e, strlen(e)); }
  hp[3] = hsh;
  {
    /* a second transformation, of the image that carries an ICC profile (APP2 segments): which extra markers reach the output is decided by
       the current TJPARAM_SAVEMARKERS alone, not by the values it had during earlier calls on the instance */
    unsigned char *jp3 = NULL; size_t jn3 = 0; int rc5; unsigned long long h4;
    memset(&xf, 0, sizeof(xf)); xf.op = TJXOP_NONE; xf.options = 0;
    rc5 = tj3Transform(h, m->icc, m->nicc, 1, &jp3, &jn3, &xf);
    if (rc5 == 0) MIXB(jp3, jn3); else { const char *e = tj3GetErrorStr(h); MIXB(e, strlen(e)); }
    h4 = hsh;
    snprintf(desc, dsz, "c%d/%zu:%llx d%d:%llx icc%d/%zu:%llx t%d/%zu:%llx m%d/%zu:%llx", rc1, jn, hp[0], rc2, hp[1], rc4, iccn, hp[2], rc3, jn2, hp[3], rc5, jn3, h4);
    tj3Free(jp3);
  }
  tj3Free(jp); tj3Free(jp2); tj3Free(icc);
  return hsh;
}

/* hist seed nsteps */
static int c12_hist(toks_t *t)
{
  unsigned long long rs = (unsigned long long)tll(t, 1) * 11400714819323198485ULL + 1ULL; int nsteps = (int)tl(t, 2), s, i; c12_mat m; tjhandle used, fresh; char d1[300], d2[300], histdesc[400] = ""; unsigned long long h1, h2;
  static unsigned char out[256 * 256 * 4 * 2]; int prec;
  c12_materials(&m, rs);
  used = tj3Init(TJINIT_TRANSFORM);
  for (s = 0; s < nsteps; s++) {
    int k = C12_RND(12); unsigned char *jp = NULL; size_t jn = 0; char tag[24];
    switch (k) {
    case 0: case 1: {   /* parameter changes, valid and invalid */
      int p = c12_settable[C12_RND(C12_NSET)], v = C12_P(70) ? C12_RND(12) : (C12_P(50) ? C12_RND(200) - 50 : C12_RND(100000));
      tj3Set(used, p, v); snprintf(tag, sizeof(tag), "s%d=%d ", p, v); break; }
    case 2: { int rc = tj3Compress8(used, m.img, 48, 0, 40, TJPF_RGB, &jp, &jn); snprintf(tag, sizeof(tag), "c%d ", rc); tj3Free(jp); break; }
    case 3: { int rc = tj3Decompress8(used, m.good, m.ngood, out, 0, C12_RND(TJ_NUMPF)); snprintf(tag, sizeof(tag), "d%d ", rc); break; }
    case 4: {   /* truncated at a seeded place: header, inside the ICC marker, inside the data */
      size_t cut = C12_P(40) ? 40 + (size_t)C12_RND(2900) : (size_t)C12_RND((int)m.nicc); int rc;
      if (cut > m.nicc) cut = m.nicc / 2;
      rc = tj3DecompressHeader(used, m.icc, cut); if (rc == 0 || C12_P(50)) rc = tj3Decompress8(used, m.icc, cut, out, 0, TJPF_RGB);
      snprintf(tag, sizeof(tag), "t%zu:%d ", cut, rc); break; }
    case 5: {   /* corrupted */
      unsigned char *c = (unsigned char *)malloc(m.nprog); int rc, q; memcpy(c, m.prog, m.nprog);
      for (q = 0; q < 6; q++) c[C12_RND((int)m.nprog)] ^= (unsigned char)(1 << C12_RND(8));
      rc = c12_fits(used, c, m.nprog, sizeof(out)) ? tj3Decompress8(used, c, m.nprog, out, 0, TJPF_BGRX) : -2; snprintf(tag, sizeof(tag), "x%d ", rc); free(c); break; }
    case 6: { tjtransform xf; unsigned char *d = NULL; size_t dn = 0; int rc; memset(&xf, 0, sizeof(xf)); xf.op = C12_RND(8); xf.options = C12_P(50) ? TJXOPT_TRIM : TJXOPT_PERFECT;
      rc = tj3Transform(used, C12_P(50) ? m.good : m.prog, C12_P(50) ? m.ngood : m.nprog / 2, 1, &d, &dn, &xf); snprintf(tag, sizeof(tag), "f%d ", rc); tj3Free(d); break; }
    case 7: { int rc = tj3Decompress8(used, m.ll, C12_P(50) ? m.nll : m.nll / 3, out, 0, TJPF_RGB); snprintf(tag, sizeof(tag), "l%d ", rc); break; }
    case 8: { tjscalingfactor f = { 1 + C12_RND(3), 1 + C12_RND(8) }; tjregion r = { C12_RND(3) * 8, C12_RND(10), C12_RND(30), C12_RND(30) }; tj3SetScalingFactor(used, f); tj3SetCroppingRegion(used, r);
      (void)tj3Decompress8(used, m.good, m.ngood, out, 0, TJPF_RGB); snprintf(tag, sizeof(tag), "sc "); break; }
    case 9: { tj3SetICCProfile(used, m.prof, (size_t)C12_RND(3000)); snprintf(tag, sizeof(tag), "icc "); break; }
    case 10: { int rc = tj3DecompressToYUV8(used, C12_P(60) ? m.good : m.prog, C12_P(70) ? m.ngood : 200, out, 4); snprintf(tag, sizeof(tag), "y%d ", rc); break; }
    default: { int rc = tj3DecompressHeader(used, m.img, 200); snprintf(tag, sizeof(tag), "h%d ", rc); break; }
    }
    if (strlen(histdesc) + strlen(tag) < sizeof(histdesc) - 1) strcat(histdesc, tag);
  }
  /* settings that are not TJPARAMs are put back to their defaults on the used instance */
  { tjscalingfactor one = { 1, 1 }; tjregion none = { 0, 0, 0, 0 }; unsigned char *pend = NULL; size_t pn = 0; tj3SetScalingFactor(used, one); tj3SetCroppingRegion(used, none); tj3SetICCProfile(used, NULL, 0);
    /* a profile extracted from an earlier image and not yet collected is explicit state of the API: collect it */
    if (tj3GetICCProfile(used, &pend, &pn) == 0) tj3Free(pend); }
  /* make the settings valid for a probe, then copy every settable parameter of the used instance to a fresh one */
  if (tj3Get(used, TJPARAM_QUALITY) < 1 || tj3Get(used, TJPARAM_QUALITY) > 100) tj3Set(used, TJPARAM_QUALITY, 80);
  if (tj3Get(used, TJPARAM_SUBSAMP) < 0 || tj3Get(used, TJPARAM_SUBSAMP) >= TJ_NUMSAMP) tj3Set(used, TJPARAM_SUBSAMP, TJSAMP_420);
  fresh = tj3Init(TJINIT_TRANSFORM);
  /* values that came from a header and cannot be set (e.g. a predictor 0, a density 0) are replaced on BOTH instances by the
     fresh instance's value, so that the two really carry the same current settings */
  for (i = 0; i < C12_NSET; i++) {
    int v = tj3Get(used, c12_settable[i]);
    if (tj3Set(fresh, c12_settable[i], v) < 0 || tj3Get(fresh, c12_settable[i]) != v) tj3Set(used, c12_settable[i], tj3Get(fresh, c12_settable[i]));
  }
  if (getenv("C12_DEBUG")) for (i = 0; i < C12_NSET; i++) fprintf(stderr, "param %d used %d fresh %d\n", c12_settable[i], tj3Get(used, c12_settable[i]), tj3Get(fresh, c12_settable[i]));
  prec = tj3Get(used, TJPARAM_PRECISION); if (prec < 2 || prec > 16) prec = 8;
  h1 = c12_probe(used, &m, prec, d1, sizeof(d1));
  h2 = c12_probe(fresh, &m, prec, d2, sizeof(d2));
  printf("R skip %s\n", d2);
  if (h1 != h2) printf("O fail hist: after the history [%s] the probe gives %s (digest %llu); a fresh instance with the same parameter settings gives %s (digest %llu)\n", histdesc, d1, h1, d2, h2);
  else printf("O ok\n");
  tj3Destroy(used); tj3Destroy(fresh); c12_free(&m);
  return 1;
}

static int dispatch_c12(toks_t *t)
{
  if (!strcmp(t->tok[0], "hist") && t->n >= 3) return c12_hist(t);
  return 0;
}
