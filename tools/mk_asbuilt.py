#!/usr/bin/env python3
"""Regenerates the 'as built' per-property section of DESIGN.md from vlib/props/*.py, the Props/*.lean theorem lists,
known_findings.json and seeded/last_results.json (between the ASBUILT markers)."""
import os, sys, json, re, importlib
V = os.path.dirname(os.path.dirname(os.path.abspath(__file__)))
sys.path.insert(0, V)
props = [json.loads(l) for l in open(os.path.join(V, "properties.jsonl"))]
kf = json.load(open(os.path.join(V, "known_findings.json")))["findings"]
try:
    seeded = json.load(open(os.path.join(V, "seeded", "last_results.json")))
except Exception:
    seeded = {}
out = []
for p in props:
    pid = p["id"]
    m = importlib.import_module("vlib.props." + pid)
    lean = open(os.path.join(V, "lean", "LJT", "Props", pid + ".lean")).read()
    thms = re.findall(r'^theorem\s+([A-Za-z0-9_\']+)', lean, re.M)
    out.append("#### %s - %s\n" % (pid, p["title"]))
    out.append("*Theorems* (`lean/LJT/Props/%s.lean`, %d): %s.\n" % (pid, len(thms), ", ".join("`%s`" % t for t in thms)))
    out.append("*What they say.* %s\n" % m.MANIFEST["text"])
    out.append("*Tie to the code on every run.* %s\n" % m.RULE)
    out.append("*Variants.* %s.  *Not proved / trusted.* %s  %s\n" % (", ".join(m.VARIANTS), m.MANIFEST["note"], " ".join(m.TRUSTED)))
    fs = [f for f in kf if f["property"] == pid]
    if fs:
        out.append("*Findings attributed to this property.* " + "; ".join("%s (%s%s)" % (f["id"], f["status"], " " + f["commit"] if f.get("commit") else "") for f in fs) + ".\n")
    sr = {k: v for k, v in seeded.items() if k.startswith(pid + "/")}
    if sr:
        def verdict(v):
            if isinstance(v, dict):
                if v.get("rc") == 1 and v.get("violations"):
                    return "caught" + (" (proof/correspondence only, no failing input found)" if all("no-failing-input-found" in x for x in v["violations"]) else "")
                return "NOT caught (rc %s)" % v.get("rc")
            return str(v)
        out.append("*Seeded changes.* " + "; ".join("%s: %s" % (k, verdict(v)) for k, v in sorted(sr.items())) + ".\n")
txt = "\n".join(out)
# table for I.9
rows = ["| change | where (summary of the sub-agent) | result of the property's quick check |", "|---|---|---|"]
for k in sorted(seeded.keys()):
    pid, m = k.split("/")
    try:
        meta = json.load(open(os.path.join(V, "seeded", pid, m, "meta.json")))
        summ = meta.get("summary", "")[:170].replace("|", "/").replace("\n", " ")
    except Exception:
        summ = ""
    v = seeded[k]
    if isinstance(v, dict) and v.get("rc") == 1 and v.get("violations"):
        res = "VIOLATION reported" + (" (no-failing-input-found)" if all("no-failing-input-found" in x for x in v["violations"]) else " with a failing input")
    else:
        res = "not caught" if isinstance(v, dict) else str(v)
    rows.append("| %s | %s ... | %s |" % (k, summ, res))
table = "\n".join(rows)
dp = os.path.join(V, "DESIGN.md")
s = open(dp).read()
a, b = "<!-- ASBUILT-BEGIN -->", "<!-- ASBUILT-END -->"
if a in s and b in s:
    s = s[:s.index(a) + len(a)] + "\n" + txt + "\n" + s[s.index(b):]
    if "SEEDED-TABLE-PLACEHOLDER" in s:
        s = s.replace("SEEDED-TABLE-PLACEHOLDER", "<!-- SEEDED-BEGIN -->\n" + table + "\n<!-- SEEDED-END -->")
    elif "<!-- SEEDED-BEGIN -->" in s:
        s = s[:s.index("<!-- SEEDED-BEGIN -->")] + "<!-- SEEDED-BEGIN -->\n" + table + "\n" + s[s.index("<!-- SEEDED-END -->"):]
    open(dp, "w").write(s)
    print("DESIGN.md updated (%d properties)" % len(props))
else:
    print(txt)
