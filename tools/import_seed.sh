#!/bin/bash
# tools/import_seed.sh <round-dir> <m-name> <confirm-log> <id>... : import changes produced by sub-agents under <round-dir>/<id> into
# seeded/<id>/<m-name>, recording my own confirmation (tools/confirm_seed.sh) in meta.json
R=$1; M=$2; L=$3; shift 3
for id in "$@"; do
  line=$(grep "^$id: " $L | tail -1)
  case "$line" in *"0 tests failed out of 662"*"pristine rc=0 patched rc=1"*) ;; *) echo "$id: not confirmed ($line)"; continue;; esac
  mkdir -p /verif/seeded/$id/$M
  cp $R/$id/patch.diff /verif/seeded/$id/$M/
  cp $R/$id/demo_m* /verif/seeded/$id/$M/ 2>/dev/null
  python3 - "$R/$id/meta.json" "/verif/seeded/$id/$M/meta.json" "$line" "$id" <<'P'
import json, sys
m = json.load(open(sys.argv[1])); m["property"] = sys.argv[4]
m["confirmed"] = "tools/confirm_seed.sh (pristine and patched trees exported from /repo HEAD under /var/tmp/confirm, removed afterwards): " + sys.argv[3]
json.dump(m, open(sys.argv[2], "w"), indent=1)
P
  git -C /repo apply --check /verif/seeded/$id/$M/patch.diff && echo "imported: $id/$M"
done
