import LJT.Proofs.SeqHuff
import LJT.Gen.Src
/-! Lemmas for C17: size bound of an encoded block, and agreement of the two table builders
on what they accept. -/
namespace LJT.SeqHuff
open LJT.Huff LJT.LL

theorem sizes_le16 (bits : List Nat) : ∀ x ∈ sizes bits, 1 ≤ x ∧ x ≤ 16 := by
  intro x hx
  have := sizesFrom_ge bits 16 1 x hx
  omega

/-- every code of a table accepted by `jpeg_make_c_derived_tbl` has 1..16 bits -/
theorem encode_length_le (isDC lossless : Bool) (t : Tbl) (c : CDerived) (hc : mkCDerived isDC lossless t = some c)
    (s : Nat) (bs : List Bool) (he : encode c s = some bs) : bs.length ≤ 16 := by
  unfold encode at he
  simp only at he
  split at he
  · cases he
  · rename_i hne
    injection he with he; subst he
    rw [codeBits_length]
    unfold mkCDerived at hc
    simp only at hc
    split at hc
    · cases hc
    · rename_i hlen
      cases hcodes : codes t.bits with
      | none => rw [hcodes] at hc; cases hc
      | some cs =>
        rw [hcodes] at hc
        simp only at hc
        obtain ⟨c0, s0, Q⟩ := codes_canon t.bits cs hcodes
        have hcl : (sizes t.bits).length ≤ cs.length := by rw [Q.len]; exact Nat.le_refl _
        have hvl : (sizes t.bits).length ≤ (t.vals ++ List.replicate (256 - t.vals.length) 0).length := by
          simp; omega
        have hnz : ∀ x ∈ sizes t.bits, x ≠ 0 := fun x hx => by have := sizes_le16 t.bits x hx; omega
        obtain ⟨h1, h2, _⟩ := fillC_spec _ _ _ _ _ _ c hc hcl hvl hnz
          (by cases isDC <;> cases lossless <;> decide) (by simp) (by simp)
        rcases h2 s hne with h0 | ⟨q, hq, hqs⟩
        · exfalso; apply h0
          rw [Array.getD_eq_getD_getElem?, Array.getElem?_replicate]
          split <;> rfl
        · have := (h1 q hq).2
          rw [hqs] at this
          rw [this]
          exact (sizes_le16 t.bits _ (List.getElem_mem hq)).2

theorem zrlBits_length (isDC lossless : Bool) (t : Tbl) (c : CDerived) (hc : mkCDerived isDC lossless t = some c) :
    ∀ n z, zrlBits c n = some z → z.length ≤ 16 * n := by
  intro n
  induction n with
  | zero => intro z h; simp [zrlBits] at h; subst h; simp
  | succ k ih =>
    intro z h
    unfold zrlBits at h
    cases he : encode c 0xF0 with
    | none => simp [he] at h
    | some zb =>
      cases hr : zrlBits c k with
      | none => simp [he, hr] at h
      | some zr =>
        simp [he, hr] at h; subst h
        have := encode_length_le isDC lossless t c hc _ _ he
        have := ih zr hr
        simp; omega

/-- at most 31 bits per coefficient position -/
theorem encodeAC_length (t : Tbl) (c : CDerived) (hc : mkCDerived false false t = some c) :
    ∀ (ac : List Int) (r : Nat) (bits : List Bool), (∀ v ∈ ac, v.natAbs < 32768) → encodeAC c r ac = some bits →
      bits.length ≤ 31 * (r + ac.length) := by
  intro ac
  induction ac with
  | nil =>
    intro r bits _ he
    unfold encodeAC at he
    by_cases hr : r = 0
    · subst hr; simp at he; subst he; simp
    · simp only [hr, if_false] at he
      have := encode_length_le false false t c hc _ _ he
      simp; omega
  | cons v tl ih =>
    intro r bits hv he
    have hvt : ∀ x ∈ tl, x.natAbs < 32768 := fun x hx => hv x (by simp [hx])
    unfold encodeAC at he
    by_cases hv0 : v = 0
    · subst hv0
      simp only [if_true] at he
      have := ih (r + 1) bits hvt he
      simp at this ⊢; omega
    · simp only [hv0, if_false] at he
      obtain ⟨h1, h15, hnex, _, _⟩ := category_small v hv0 (hv v (by simp))
      generalize category v = cat at *
      obtain ⟨nb, ex, nex⟩ := cat
      simp only at *
      subst hnex
      cases hz : zrlBits c (r / 16) with
      | none => simp [hz] at he
      | some z =>
        cases hs : encode c (r % 16 * 16 + nex) with
        | none => simp [hz, hs] at he
        | some s =>
          cases hrest : encodeAC c 0 tl with
          | none => simp [hz, hs, hrest] at he
          | some tb =>
            simp [hz, hs, hrest] at he; subst he
            have l1 := zrlBits_length false false t c hc _ _ hz
            have l2 := encode_length_le false false t c hc _ _ hs
            have l3 := ih 0 tb hvt hrest
            simp [natBits, codeBits_length] at l3 ⊢
            omega

/-- **an encoded block, together with up to 63 bits pending in the bit buffer, never needs
more than the local output buffer of `encode_one_block`, even if every byte is stuffed** -/
theorem block_fits_buffer (tdc tac : Tbl) (cdc cac : CDerived)
    (h1 : mkCDerived true false tdc = some cdc) (h3 : mkCDerived false false tac = some cac)
    (diff : Int) (ac : List Int) (hlen : ac.length = 63) (hd : diff.natAbs < 32768)
    (hac : ∀ v ∈ ac, v.natAbs < 32768) (bits : List Bool) (he : encodeBlock cdc cac diff ac = some bits)
    (pending : Nat) (hp : pending ≤ 63) :
    2 * ((pending + bits.length) / 8) ≤ Gen.Src.jchuff_BUFSIZE := by
  unfold encodeBlock at he
  cases hi : itemBits cdc diff with
  | none => simp [hi] at he
  | some db =>
    cases ha : encodeAC cac 0 ac with
    | none => simp [hi, ha] at he
    | some ab =>
      simp [hi, ha] at he; subst he
      have la := encodeAC_length tac cac h3 ac 0 ab hac ha
      rw [hlen] at la
      -- DC: code + at most 15 extra bits
      have ld : db.length ≤ 31 := by
        unfold itemBits at hi
        by_cases h0 : diff = 0
        · subst h0
          have hz : nbitsClz 17 0 = 0 := by decide
          simp [category, bitLen, hz] at hi
          cases hcode : encode cdc 0 with
          | none => simp [hcode] at hi
          | some code =>
            simp [hcode, natBits, codeBits_zero] at hi; subst hi
            have := encode_length_le true false tdc cdc h1 _ _ hcode
            omega
        · obtain ⟨_, h15, hnex, _, _⟩ := category_small diff h0 hd
          generalize category diff = cat at *
          obtain ⟨nb, ex, nex⟩ := cat
          simp only at *
          cases hcode : encode cdc nb with
          | none => simp [hcode] at hi
          | some code =>
            simp [hcode] at hi; subst hi
            have := encode_length_le true false tdc cdc h1 _ _ hcode
            simp [natBits, codeBits_length]; omega
      simp [Gen.Src.jchuff_BUFSIZE]
      omega

theorem fillC_vals_le : ∀ (sz cs vals : List Nat) (m : Nat) (co si : Array Nat) (d : CDerived),
    fillC sz cs vals m co si = some d → sz.length ≤ vals.length → ∀ v ∈ vals.take sz.length, v ≤ m := by
  intro sz
  induction sz with
  | nil => intro cs vals m co si d _ _ v hv; simp at hv
  | cons s0 sz ih =>
    intro cs vals m co si d h hl v hv
    cases cs with
    | nil => simp [fillC] at h
    | cons c0 cs =>
      cases vals with
      | nil => simp at hl
      | cons v0 vals =>
        simp only [fillC] at h
        split at h
        · cases h
        · rename_i hcond
          simp only [List.length_cons, List.take_succ_cons, List.mem_cons] at hv
          rcases hv with rfl | hv
          · simp at hcond; omega
          · exact ih cs vals m _ _ d h (by simp at hl; omega) v hv

/-- **whatever table the compressor accepts, the decompressor accepts** -/
theorem c_accepts_d_accepts (isDC lossless : Bool) (t : Tbl) (c : CDerived)
    (hc : mkCDerived isDC lossless t = some c) : (mkDDerived isDC lossless t).isSome = true := by
  unfold mkCDerived at hc
  unfold mkDDerived
  simp only at hc ⊢
  split at hc
  · cases hc
  · rename_i hlen
    rw [if_neg hlen]
    cases hcodes : codes t.bits with
    | none => rw [hcodes] at hc; cases hc
    | some cs =>
      rw [hcodes] at hc
      simp only at hc ⊢
      have hvl : (sizes t.bits).length ≤ (t.vals ++ List.replicate (256 - t.vals.length) 0).length := by
        simp; omega
      have hle := fillC_vals_le _ _ _ _ _ _ c hc hvl
      cases isDC with
      | false => simp
      | true =>
        simp only [Bool.true_and, if_true] at hle ⊢
        have : ((t.vals ++ List.replicate (256 - t.vals.length) 0).take (sizes t.bits).length).any (· > (if lossless then 16 else 15)) = false := by
          apply List.any_eq_false.2
          intro x hx
          have := hle x hx
          simp; cases lossless <;> simp at this ⊢ <;> omega
        simp [this]

end LJT.SeqHuff
